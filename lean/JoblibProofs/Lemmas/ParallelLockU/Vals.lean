import JoblibProofs.Lemmas.ParallelLockU.Order
/-!
M1LU proofs — the VALUES invariant: what the consumer has received (`out`) is the concatenation of the task ids of
the delivered trackers, in the order of delivery (`delivered`); a tracker's registered values are its own task ids;
the task ids of a tracker never change.  All modes.
-/
namespace JoblibModel.ParallelLockU
open JoblibModel.ParallelLock (Tid Status CbPc DK DRes Act chunks)

/-- A tracker's registered values are its task ids (the task function is the identity). -/
def TOk (t : Tracker) : Prop := ∀ l, t.result = .vals l → l = t.items

theorem tOk_default : TOk (default : Tracker) := by intro l h; cases h

/-- The tracker table evolves: it only grows, the task ids of an existing tracker never change, `TOk` is kept. -/
structure TabStep (l l' : List Tracker) : Prop where
  len : l.length ≤ l'.length
  items : ∀ i, i < l.length → (getT l' i).items = (getT l i).items
  ok : ∀ i, TOk (getT l i) → TOk (getT l' i)

theorem TabStep.refl (l : List Tracker) : TabStep l l := ⟨Nat.le_refl _, fun _ _ => rfl, fun _ h => h⟩

theorem TabStep.trans {a b c : List Tracker} (h1 : TabStep a b) (h2 : TabStep b c) : TabStep a c :=
  ⟨Nat.le_trans h1.len h2.len,
   fun i hi => (h2.items i (Nat.lt_of_lt_of_le hi h1.len)).trans (h1.items i hi),
   fun i h => h2.ok i (h1.ok i h)⟩

theorem tabStep_set (l : List Tracker) (i : Nat) (t : Tracker) (hi : t.items = (getT l i).items)
    (hok : TOk (getT l i) → TOk t) : TabStep l (l.set i t) := by
  refine ⟨by simp, ?_, ?_⟩
  · intro j _
    rw [getT_set]; split
    · rename_i hh; rw [hh.1]; exact hi
    · rfl
  · intro j h
    rw [getT_set]; split
    · rename_i hh; rw [hh.1] at h; exact hok h
    · exact h

theorem tabStep_append (l : List Tracker) (t : Tracker) (hok : TOk t) : TabStep l (l ++ [t]) := by
  refine ⟨by simp, ?_, ?_⟩
  · intro j hj; rw [getT_append_left _ _ _ hj]
  · intro j h
    rw [getT_append]; split
    · exact h
    · split
      · exact hok
      · exact tOk_default

theorem tabStep_dropParked (l : List Tracker) :
    TabStep l (l.map (fun t => if t.pc == .parked then { t with pc := .dropped } else t)) := by
  refine ⟨by simp, ?_, ?_⟩
  · intro j hj; rw [getT_map _ _ _ hj]; split <;> rfl
  · intro j h
    by_cases hj : j < l.length
    · rw [getT_map _ _ _ hj]; split
      · exact h
      · exact h
    · rw [getT_of_ge _ _ (by simpa using hj)]; exact tOk_default

theorem flatMap_congr' {l : List Nat} {f g : Nat → List Nat} (h : ∀ i ∈ l, f i = g i) :
    l.flatMap f = l.flatMap g := by
  induction l with
  | nil => rfl
  | cons a r ih =>
    simp only [List.flatMap_cons]
    rw [h a (by simp), ih (fun i hi => h i (by simp [hi]))]

structure ValInv (s : St) : Prop where
  ok : ∀ i, TOk (getT s.trk i)
  bound : ∀ i ∈ s.delivered, i < s.trk.length
  out : s.out = s.delivered.flatMap (fun i => (getT s.trk i).items)

theorem valInv_init : ValInv init := by
  refine ⟨fun i => ?_, ?_, ?_⟩
  · simp only [init, getT, List.getD_eq_getElem?_getD, List.getElem?_nil, Option.getD_none]; exact tOk_default
  · simp [init]
  · simp [init]

/-- A step that leaves `out` and `delivered` alone. -/
theorem ValInv.tab {s s' : St} (h : ValInv s) (ht : TabStep s.trk s'.trk) (ho : s'.out = s.out)
    (hd : s'.delivered = s.delivered) : ValInv s' := by
  refine ⟨fun i => ht.ok i (h.ok i), ?_, ?_⟩
  · intro i hi; rw [hd] at hi; exact Nat.lt_of_lt_of_le (h.bound i hi) ht.len
  · rw [ho, hd, h.out]
    apply flatMap_congr'
    intro i hi
    exact (ht.items i (h.bound i hi)).symm

/-- Delivery of tracker `i`: its values are its task ids, and it exists. -/
theorem ValInv.deliver {s s' : St} (h : ValInv s) (i : Nat) (hi : i < s.trk.length)
    (ht : s'.trk = s.trk) (ho : s'.out = s.out ++ (getT s.trk i).items) (hd : s'.delivered = s.delivered ++ [i]) :
    ValInv s' := by
  refine ⟨fun j => by rw [ht]; exact h.ok j, ?_, ?_⟩
  · intro j hj
    rw [hd] at hj
    rw [ht]
    simp only [List.mem_append, List.mem_singleton] at hj
    rcases hj with hj | hj
    · exact h.bound j hj
    · rw [hj]; exact hi
  · rw [ho, hd, ht, h.out]; simp

/-- `_return_or_raise` on tracker `i`: the table step, and when it returns values these are the tracker's task ids
and the tracker exists. -/
theorem returnOrRaise_vals (s : St) (i : Nat) (hok : TOk (getT s.trk i)) :
    TabStep s.trk (returnOrRaise s i).1.trk ∧ (returnOrRaise s i).1.out = s.out ∧
    (returnOrRaise s i).1.delivered = s.delivered ∧
    ∀ l, (returnOrRaise s i).2 = .ok l → l = (getT s.trk i).items ∧ i < s.trk.length := by
  have hset : TabStep s.trk (setTrk s i { getTrk s i with result := .none }).trk := by
    simp only [setTrk, getTrk_def]
    exact tabStep_set _ _ _ rfl (fun _ l h => by cases h)
  have hok' : TOk (getTrk s i) := hok
  unfold returnOrRaise
  simp only []
  cases hr : (getTrk s i).result with
  | none => exact ⟨TabStep.refl _, rfl, rfl, fun l h => by cases h⟩
  | vals l0 =>
    simp only []
    split
    · exact ⟨hset, rfl, rfl, fun l h => by cases h⟩
    · refine ⟨hset, rfl, rfl, ?_⟩
      intro l h
      simp only [Except.ok.injEq] at h
      subst h
      refine ⟨hok' _ hr, ?_⟩
      apply Classical.byContradiction
      intro hn
      have : getTrk s i = default := getT_of_ge _ _ (by omega)
      rw [this] at hr
      cases hr
  | exc e =>
    simp only []
    split <;> exact ⟨hset, rfl, rfl, fun l h => by cases h⟩

theorem SameBut.tab {s s1 : St} (h : SameBut s s1) : s1.trk = s.trk ∧ s1.out = s.out ∧ s1.delivered = s.delivered := by
  unfold SameBut at h
  refine ⟨?_, ?_, ?_⟩ <;> rw [h]

theorem DLCase.vals {c : Cfg} {bs : Nat} {s : St} {r : St × DRes} (h : DLCase c bs s r) :
    TabStep s.trk r.1.trk ∧ r.1.out = s.out ∧ r.1.delivered = s.delivered := by
  cases h with
  | ret s1 r h =>
    obtain ⟨a, b, d⟩ := h.tab
    exact ⟨by rw [a]; exact TabStep.refl _, b, d⟩
  | submit s1 tasks h hab =>
    obtain ⟨a, b, d⟩ := h.tab
    unfold registerNewJob
    refine ⟨?_, ?_, ?_⟩
    · have : TabStep s.trk (s1.trk ++ [newTracker s tasks]) := by
        rw [a]; exact tabStep_append _ _ (fun l hl => by cases hl)
      split <;> exact this
    · split <;> exact b
    · split <;> exact d
  | iterr s1 h hab =>
    obtain ⟨a, b, d⟩ := h.tab
    unfold registerIterError appendOutcome registerNewJob
    refine ⟨?_, ?_, ?_⟩
    · have : TabStep s.trk (s1.trk ++ [errTracker s1 bs]) := by
        rw [a]; exact tabStep_append _ _ (fun l hl => by cases hl)
      simp only; split <;> first | exact this | (split <;> exact this)
    · simp only; split <;> first | exact b | (split <;> exact b)
    · simp only; split <;> first | exact d | (split <;> exact d)

theorem tailNext_vals (c : Cfg) (s : St) (rem : List Nat) :
    (tailNext c s rem).trk = s.trk ∧ (tailNext c s rem).out = s.out ∧ (tailNext c s rem).delivered = s.delivered := by
  cases rem with
  | nil =>
    unfold tailNext finishRet ev
    refine ⟨?_, ?_, ?_⟩ <;> (simp only; split <;> rfl)
  | cons i r => exact ⟨rfl, rfl, rfl⟩

/-- A step that only rewrites pc-like / flag-like fields of tracker `i`. -/
theorem tabStep_setTrk_same (s : St) (i : Nat) (t : Tracker) (hi : t.items = (getT s.trk i).items)
    (hr : t.result = (getT s.trk i).result ∨ ∀ l, t.result ≠ .vals l) : TabStep s.trk (s.trk.set i t) := by
  refine tabStep_set _ _ _ hi ?_
  intro h l hl
  rcases hr with hr | hr
  · rw [hi]; exact h l (hr ▸ hl)
  · exact absurd hl (hr l)

theorem stepCaller_val (c : Cfg) (s : St) (h : ValInv s) : ValInv (stepCaller c s) := by
  cases hpc : s.pc
  case dAcq k bs =>
    unfold stepCaller
    simp only [hpc]
    have hd := (dispatchLocked_cases c 0 false bs { s with lockOwner := some 0, pc := .dIn k }).vals
    generalize dispatchLocked c 0 false bs { s with lockOwner := some 0, pc := .dIn k } = r at hd
    obtain ⟨s', x⟩ := r
    obtain ⟨h1, h2, h3⟩ := hd
    cases x <;> exact h.tab h1 h2 h3
  case resStatus i =>
    unfold stepCaller
    simp only [hpc]
    have hv := returnOrRaise_vals s i (h.ok i)
    generalize returnOrRaise s i = r at hv
    obtain ⟨s', x⟩ := r
    obtain ⟨h1, h2, h3, h4⟩ := hv
    cases x with
    | error e => exact h.tab h1 h2 h3
    | ok l =>
      obtain ⟨e1, e2⟩ := h4 l rfl
      have h' : ValInv s' := h.tab h1 h2 h3
      obtain ⟨_, _, f3, _, f5, f6⟩ := deliverVals_frame c s' i l
      have hlen : i < s'.trk.length := Nat.lt_of_lt_of_le e2 h1.len
      have hit : (getT s'.trk i).items = l := by rw [h1.items i e2, e1]
      exact ValInv.deliver (s := s') (s' := { deliverVals c s' i l with pc := .wtAbort }) h' i hlen f6
        (by rw [hit]; exact f5) f3
  case refStatus i =>
    unfold stepCaller
    simp only [hpc]
    have hv := returnOrRaise_vals s i (h.ok i)
    generalize returnOrRaise s i = r at hv
    obtain ⟨s', x⟩ := r
    obtain ⟨h1, h2, h3, h4⟩ := hv
    cases x <;> exact h.tab h1 h2 h3
  case tailStatus i rem =>
    unfold stepCaller
    simp only [hpc]
    have hv := returnOrRaise_vals s i (h.ok i)
    generalize returnOrRaise s i = r at hv
    obtain ⟨s', x⟩ := r
    obtain ⟨h1, h2, h3, h4⟩ := hv
    cases x with
    | error e => exact h.tab (s' := finishRaise s' e) h1 h2 h3
    | ok l =>
      obtain ⟨e1, e2⟩ := h4 l rfl
      have h' : ValInv s' := h.tab h1 h2 h3
      obtain ⟨_, _, f3, _, f5, f6⟩ := deliverVals_frame c s' i l
      obtain ⟨g1, g2, g3⟩ := tailNext_vals c (deliverVals c s' i l) rem
      have hlen : i < s'.trk.length := Nat.lt_of_lt_of_le e2 h1.len
      have hit : (getT s'.trk i).items = l := by rw [h1.items i e2, e1]
      exact ValInv.deliver (s := s') h' i hlen (g1.trans f6) (by rw [g2, hit]; exact f5) (g3.trans f3)
  case finSetW e rem =>
    unfold stepCaller
    simp only [hpc]
    cases e with
    | some e => exact h.tab (s' := finishRaise _ e) (TabStep.refl _) rfl rfl
    | none =>
      have g := tailNext_vals c { s with pc := Pc.finSetW none rem, jobsSet := [], running := false } rem
      exact h.tab (by rw [g.1]; exact TabStep.refl _) g.2.1 g.2.2
  case refRel e =>
    unfold stepCaller
    cases e <;> simp only [hpc] <;> exact h.tab (TabStep.refl _) rfl rfl
  case abortCall e =>
    unfold stepCaller
    simp only [hpc, ev, dropParked]
    refine h.tab ?_ ?_ ?_
    · simp only; split
      · exact tabStep_dropParked _
      · exact TabStep.refl _
    · simp only; split <;> rfl
    · simp only; split <;> rfl
  all_goals
    unfold stepCaller
    simp only [hpc]
  all_goals repeat' split
  all_goals first
    | exact h.tab (TabStep.refl _) rfl rfl
    | exact h
    | (refine h.tab ?_ ?_ ?_ <;> simp only [setTrk, appendOutcome, finishRaise, ev, doSubmit, setCb, getTrk_def] <;>
        first | rfl | exact TabStep.refl _ | exact tabStep_setTrk_same _ _ _ rfl (Or.inl rfl)
              | exact tabStep_setTrk_same _ _ _ rfl (Or.inr (by intro l hl; cases hl)) | (split <;> rfl)
              | (split <;> exact TabStep.refl _))

/-- A step of another thread as seen by the values invariant. -/
def VStep (s s' : St) : Prop := TabStep s.trk s'.trk ∧ s'.out = s.out ∧ s'.delivered = s.delivered

theorem VStep.refl (s : St) : VStep s s := ⟨TabStep.refl _, rfl, rfl⟩

theorem VStep.trans {a b c : St} (h1 : VStep a b) (h2 : VStep b c) : VStep a c :=
  ⟨h1.1.trans h2.1, h2.2.1.trans h1.2.1, h2.2.2.trans h1.2.2⟩

theorem ValInv.vstep {s s' : St} (h : ValInv s) (v : VStep s s') : ValInv s' := h.tab v.1 v.2.1 v.2.2

theorem setCb_vstep (s : St) (i : Nat) (p : CbPc) : VStep s (setCb s i p) :=
  ⟨by simp only [setCb, setTrk, getTrk_def]; exact tabStep_setTrk_same _ _ _ rfl (Or.inl rfl), rfl, rfl⟩

theorem cbAfterDispatch_vstep (i : Nat) (s : St) (r : Bool) : VStep s (cbAfterDispatch i s r) := by
  unfold cbAfterDispatch
  split
  · exact setCb_vstep { s with lockOwner := none } i .relC
  · exact setCb_vstep { s with iterating := false, origAlive := false, lockOwner := none } i .relC

theorem cbDispatchResult_vstep {c : Cfg} {bs : Nat} {s : St} (i : Nat) {r : St × DRes} (hd : DLCase c bs s r) :
    VStep s (cbDispatchResult i r) := by
  have h1 : VStep s r.1 := hd.vals
  obtain ⟨s', x⟩ := r
  cases x with
  | submit j => exact h1.trans (setCb_vstep s' i _)
  | ret b => exact h1.trans (cbAfterDispatch_vstep i s' b)

theorem appendOutcome_vstep (c : Cfg) (i : Nat) (s : St) : VStep s (appendOutcome c i s) := by
  unfold appendOutcome; split <;> exact VStep.refl s

theorem stepCb_vstep (c : Cfg) (i : Nat) (s : St) : VStep s (stepCb c i s) := by
  cases hpc : (getT s.trk i).pc
  case acqA =>
    simp only [stepCb, getTrk_def, hpc]
    exact ite_prop (P := VStep s) (fun _ => setCb_vstep s i _)
      (fun _ => ite_prop (P := VStep s) (fun _ => setCb_vstep s i _)
        (fun _ => setCb_vstep { s with lockOwner := some (i + 1) } i _))
  case retr =>
    simp only [stepCb, getTrk_def, hpc]
    refine ite_prop (P := VStep s) (fun _ => setCb_vstep { s with lockOwner := none } i _) (fun _ => ?_)
    cases (getT s.trk i).failed with
    | some id =>
      simp only []
      refine VStep.trans (b := setTrk { s with lockOwner := none, exception := true, aborting := true } i _)
        ⟨?_, rfl, rfl⟩ (appendOutcome_vstep c i _)
      simp only [setTrk]
      exact tabStep_setTrk_same _ _ _ rfl (Or.inr (by intro l hl; cases hl))
    | none =>
      simp only []
      refine VStep.trans (b := setTrk { s with lockOwner := none } i _) ⟨?_, rfl, rfl⟩ (appendOutcome_vstep c i _)
      simp only [setTrk]
      exact tabStep_set _ _ _ rfl (fun _ l hl => by simp only [Res.vals.injEq] at hl; exact hl.symm)
  case acqC =>
    simp only [stepCb, getTrk_def, hpc]
    refine ite_prop (P := VStep s) (fun _ => ?_) (fun _ => setCb_vstep { s with nCompleted := _ } i _)
    have h0 : VStep s (setCb { s with lockOwner := some (i + 1), nCompleted := s.nCompleted + (getT s.trk i).bsize } i .bsC) :=
      setCb_vstep { s with lockOwner := some (i + 1), nCompleted := s.nCompleted + (getT s.trk i).bsize } i .bsC
    refine ite_prop (P := VStep s) (fun _ => ?_) (fun _ => ite_prop (P := VStep s) (fun _ => h0) (fun _ => ?_))
    · exact h0.trans (cbAfterDispatch_vstep i _ false)
    · exact h0.trans (cbDispatchResult_vstep i (dispatchLocked_cases c (i + 1) true _ _))
  case bsC =>
    simp only [stepCb, getTrk_def, hpc]
    exact VStep.trans (b := { s with bsI := s.bsI + 1 }) (VStep.refl s)
      (cbDispatchResult_vstep i (dispatchLocked_cases c (i + 1) true _ _))
  case submitC j =>
    simp only [stepCb, getTrk_def, hpc]
    refine VStep.trans (b := doSubmit (i + 1) j (setCb s i .bsC)) ?_ (cbAfterDispatch_vstep i _ true)
    exact (setCb_vstep s i .bsC).trans (setCb_vstep (ev (setCb s i .bsC) _) j .parked)
  all_goals
    simp only [stepCb, getTrk_def, hpc]
    first | exact VStep.refl s | exact setCb_vstep s i _

theorem step_val (c : Cfg) (s : St) (h : ValInv s) (a : Act) : ValInv (step c s a) := by
  cases a with
  | thread t =>
    cases t with
    | zero =>
      simp only [step]
      split
      · exact stepCaller_val c s h
      · exact h
    | succ i =>
      simp only [step]
      split
      · exact h.vstep (stepCb_vstep c i s)
      · exact h
  | complete k =>
    simp only [step]
    split
    · refine h.tab (s' := complete c _ s) ?_ rfl rfl
      simp only [complete, setTrk, ev, getTrk_def]
      exact tabStep_setTrk_same _ _ _ rfl (Or.inl rfl)
    · exact h

theorem run_val (c : Cfg) (sched : List Act) : ∀ s, ValInv s → ValInv (run c s sched) := by
  induction sched with
  | nil => intro s h; exact h
  | cons a r ih => intro s h; exact ih _ (step_val c s h a)

end JoblibModel.ParallelLockU
