import JoblibProofs.Lemmas.ParallelLockU.Vals
/-!
M1LU proofs — the TIMEOUT invariant `TInv`: the code of `get_status`'s timeout branch is only reached with a timeout;
the caller parks at the lock of `_register_outcome(TimeoutError)` only when the counter of that tracker has expired;
and whenever a TimeoutError exists anywhere (in a tracker, in the caller's hands, as the outcome of the call) the ghost
`toWait` records a tracker, the value of its counter and the clock with `timeout < clock - counter`.
-/
namespace JoblibModel.ParallelLockU
open JoblibModel.ParallelLock (Tid Status CbPc DK DRes Act chunks)

/-- Some tracker holds a TimeoutError. -/
def hasTO (l : List Tracker) : Prop := ∃ i, (getT l i).result = .exc .timeout

/-- The caller holds a TimeoutError (about to register it, or on its way out with it). -/
def Pc.carriesTO : Pc → Bool
  | .toRel _ _ true => true
  | .excW .timeout | .abortW .timeout | .abortCall .timeout => true
  | .finExc (some .timeout) | .finJobsR (some .timeout) | .finJobsW (some .timeout) _ | .finSetW (some .timeout) _ => true
  | _ => false

/-- Program points inside `get_status`'s timeout branch / `_register_outcome(TimeoutError)`. -/
def Pc.inGetStatus : Pc → Bool
  | .gsStatus _ _ | .toAcq _ _ | .toRel _ _ _ | .toStatus _ _ | .toExcW _ _ | .toAbortW _ _ | .toAcq2 _ _
  | .toRel2 _ _ => true
  | _ => false

/-- The ghost record of a registered TimeoutError is there and says that the counter had expired. -/
def WaitOK (c : Cfg) (s : St) : Prop :=
  ∃ T i t0 t1, c.timeout = some T ∧ s.toWait = some (i, t0, t1) ∧ T < t1 - t0

/-- A TimeoutError exists somewhere. -/
def Mentions (s : St) : Prop :=
  s.pc.carriesTO = true ∨ hasTO s.trk ∨ s.outcome = some (.raised .timeout)

structure TInv (c : Cfg) (s : St) : Prop where
  code : s.pc.inGetStatus = true → c.timeout.isSome = true
  exp : ∀ i k, s.pc = .toAcq i k → c.timeout.getD 0 < s.clock - (getT s.trk i).tcnt.getD s.clock
  wait : Mentions s → WaitOK c s

theorem tInv_init (c : Cfg) : TInv c init := by
  refine ⟨by simp [init, Pc.inGetStatus], by simp [init], ?_⟩
  rintro (h | ⟨i, h⟩ | h)
  · simp [init, Pc.carriesTO] at h
  · simp [init, getT] at h
    cases h
  · simp [init] at h

theorem hasTO_set {l : List Tracker} {i : Nat} {t : Tracker} (h : hasTO (l.set i t)) :
    hasTO l ∨ t.result = .exc .timeout := by
  obtain ⟨j, hj⟩ := h
  rw [getT_set] at hj
  split at hj
  · exact Or.inr hj
  · exact Or.inl ⟨j, hj⟩

theorem hasTO_set_same {l : List Tracker} {i : Nat} {t : Tracker} (hr : t.result = (getT l i).result)
    (h : hasTO (l.set i t)) : hasTO l := by
  rcases hasTO_set h with h | h
  · exact h
  · exact ⟨i, hr ▸ h⟩

theorem hasTO_append {l : List Tracker} {t : Tracker} (hr : t.result ≠ .exc .timeout) (h : hasTO (l ++ [t])) :
    hasTO l := by
  obtain ⟨j, hj⟩ := h
  rw [getT_append] at hj
  split at hj
  · exact ⟨j, hj⟩
  · split at hj
    · exact absurd hj hr
    · cases hj

theorem hasTO_dropParked {l : List Tracker}
    (h : hasTO (l.map (fun t => if t.pc == .parked then { t with pc := .dropped } else t))) : hasTO l := by
  obtain ⟨j, hj⟩ := h
  by_cases hl : j < l.length
  · rw [getT_map _ _ _ hl] at hj
    split at hj <;> exact ⟨j, hj⟩
  · rw [getT_of_ge _ _ (by simpa using hl)] at hj; cases hj

/-- `_return_or_raise` raises a TimeoutError only if the tracker holds one; it never creates one. -/
theorem returnOrRaise_to (s : St) (i : Nat) :
    ((returnOrRaise s i).2 = .error .timeout → hasTO s.trk) ∧
    (hasTO (returnOrRaise s i).1.trk → hasTO s.trk) ∧
    (returnOrRaise s i).1.toWait = s.toWait ∧ (returnOrRaise s i).1.outcome = s.outcome ∧
    (returnOrRaise s i).1.clock = s.clock := by
  have hset : hasTO (setTrk s i { getTrk s i with result := .none }).trk → hasTO s.trk := by
    intro h
    rcases hasTO_set h with h | h
    · exact h
    · cases h
  unfold returnOrRaise
  simp only []
  cases hr : (getTrk s i).result with
  | none => exact ⟨(fun h => by cases h), id, rfl, rfl, rfl⟩
  | vals l0 =>
    simp only []
    split <;> exact ⟨(fun h => by cases h), hset, rfl, rfl, rfl⟩
  | exc e =>
    simp only []
    split
    · refine ⟨fun h => ?_, hset, rfl, rfl, rfl⟩
      simp only [Except.error.injEq] at h
      subst h
      exact ⟨i, hr⟩
    · exact ⟨(fun h => by cases h), hset, rfl, rfl, rfl⟩

/-- A move of the caller that neither enters `_register_outcome` nor touches the ghost record. -/
theorem TInv.move {c : Cfg} {s s' : St} (h : TInv c s)
    (hcode : s'.pc.inGetStatus = true → c.timeout.isSome = true)
    (hexp : ∀ i k, s'.pc ≠ .toAcq i k)
    (hw : s'.toWait = s.toWait)
    (hm : Mentions s' → Mentions s) : TInv c s' := by
  refine ⟨hcode, fun i k hp => absurd hp (hexp i k), ?_⟩
  intro hm'
  obtain ⟨T, i, t0, t1, a, b, d⟩ := h.wait (hm hm')
  exact ⟨T, i, t0, t1, a, hw ▸ b, d⟩

/-- A move to the program point `p'` that keeps the trackers' results, the outcome and the ghost record. -/
theorem TInv.move' {c : Cfg} {s s' : St} (h : TInv c s) (p' : Pc) (hp' : s'.pc = p')
    (hcode : p'.inGetStatus = true → c.timeout.isSome = true)
    (hexp : ∀ i k, p' ≠ .toAcq i k)
    (hcar : p'.carriesTO = true → s.pc.carriesTO = true)
    (hw : s'.toWait = s.toWait) (ht : hasTO s'.trk → hasTO s.trk) (ho : s'.outcome = s.outcome) : TInv c s' := by
  refine h.move (hp' ▸ hcode) (hp' ▸ hexp) hw ?_
  rintro (hm | hm | hm)
  · exact Or.inl (hcar (hp' ▸ hm))
  · exact Or.inr (Or.inl (ht hm))
  · exact Or.inr (Or.inr (ho ▸ hm))

theorem afterDispatch_facts (c : Cfg) (k : DK) (r : Bool) :
    (afterDispatch c k r).inGetStatus = false ∧ (afterDispatch c k r).carriesTO = false ∧
    ∀ i k', afterDispatch c k r ≠ .toAcq i k' := by
  cases k <;> cases r <;> simp only [afterDispatch] <;> (try split) <;> simp [Pc.inGetStatus, Pc.carriesTO]

theorem getStatusEntry_facts (c : Cfg) (i : Nat) (k : GK) :
    ((getStatusEntry c i k).inGetStatus = true → c.timeout.isSome = true) ∧
    (getStatusEntry c i k).carriesTO = false ∧ ∀ i' k', getStatusEntry c i k ≠ .toAcq i' k' := by
  unfold getStatusEntry
  split
  · simp [Pc.inGetStatus, Pc.carriesTO]
  · rename_i T hT
    simp [Pc.inGetStatus, Pc.carriesTO, hT]

/-- What the timeout invariant reads, for a step that does not create a TimeoutError. -/
structure TView (s s' : St) : Prop where
  to : hasTO s'.trk → hasTO s.trk
  wait : s'.toWait = s.toWait
  outcome : s'.outcome = s.outcome
  clock : s'.clock = s.clock
  tcnt : ∀ i, (getT s'.trk i).tcnt = (getT s.trk i).tcnt

theorem TView.refl (s : St) : TView s s := ⟨id, rfl, rfl, rfl, fun _ => rfl⟩

theorem TView.trans {a b c : St} (h1 : TView a b) (h2 : TView b c) : TView a c :=
  ⟨fun h => h1.to (h2.to h), h2.wait.trans h1.wait, h2.outcome.trans h1.outcome, h2.clock.trans h1.clock,
   fun i => (h2.tcnt i).trans (h1.tcnt i)⟩

theorem tcnt_set_same (l : List Tracker) (i j : Nat) (t : Tracker) (h : t.tcnt = (getT l i).tcnt) :
    (getT (l.set i t) j).tcnt = (getT l j).tcnt := by
  rw [getT_set]; split
  · rename_i hh; rw [hh.1]; exact h
  · rfl

theorem tcnt_append (l : List Tracker) (t : Tracker) (j : Nat) (h : t.tcnt = none) :
    (getT (l ++ [t]) j).tcnt = (getT l j).tcnt := by
  rw [getT_append]; split
  · rfl
  · rw [getT_of_ge l j (by omega)]
    split
    · exact h
    · rfl

theorem SameBut.tview {s s1 : St} (h : SameBut s s1) : TView s s1 := by
  unfold SameBut at h
  have e : s1.trk = s.trk := by rw [h]
  refine ⟨fun hh => e ▸ hh, ?_, ?_, ?_, fun i => by rw [e]⟩ <;> rw [h]

theorem DLCase.tview {c : Cfg} {bs : Nat} {s : St} {r : St × DRes} (h : DLCase c bs s r) : TView s r.1 := by
  cases h with
  | ret s1 r h => exact h.tview
  | submit s1 tasks h hab =>
    have v := h.tview
    have e : s1.trk = s.trk := by unfold SameBut at h; rw [h]
    have ht : hasTO (s1.trk ++ [newTracker s tasks]) → hasTO s.trk := by
      intro hh; rw [e] at hh; exact hasTO_append (by simp [newTracker]) hh
    have hc : ∀ i, (getT (s1.trk ++ [newTracker s tasks]) i).tcnt = (getT s.trk i).tcnt := by
      intro i; rw [e]; exact tcnt_append _ _ _ rfl
    unfold registerNewJob
    refine ⟨?_, ?_, ?_, ?_, ?_⟩
    · split <;> exact ht
    · split <;> exact v.wait
    · split <;> exact v.outcome
    · split <;> exact v.clock
    · split <;> exact hc
  | iterr s1 h hab =>
    have v := h.tview
    have e : s1.trk = s.trk := by unfold SameBut at h; rw [h]
    have ht : hasTO (s1.trk ++ [errTracker s1 bs]) → hasTO s.trk := by
      intro hh; rw [e] at hh; exact hasTO_append (by simp [errTracker]) hh
    have hc : ∀ i, (getT (s1.trk ++ [errTracker s1 bs]) i).tcnt = (getT s.trk i).tcnt := by
      intro i; rw [e]; exact tcnt_append _ _ _ rfl
    unfold registerIterError appendOutcome registerNewJob
    refine ⟨?_, ?_, ?_, ?_, ?_⟩
    · simp only; split <;> first | exact ht | (split <;> exact ht)
    · simp only; split <;> first | exact v.wait | (split <;> exact v.wait)
    · simp only; split <;> first | exact v.outcome | (split <;> exact v.outcome)
    · simp only; split <;> first | exact v.clock | (split <;> exact v.clock)
    · simp only; split <;> first | exact hc | (split <;> exact hc)

theorem tailNext_tfacts (c : Cfg) (s : St) (rem : List Nat) :
    (tailNext c s rem).pc.inGetStatus = false ∧ (tailNext c s rem).pc.carriesTO = false ∧
    (∀ i k, (tailNext c s rem).pc ≠ .toAcq i k) ∧ (tailNext c s rem).trk = s.trk ∧
    (tailNext c s rem).toWait = s.toWait ∧
    ((tailNext c s rem).outcome = some (.raised .timeout) → s.outcome = some (.raised .timeout)) := by
  cases rem with
  | nil =>
    unfold tailNext finishRet ev
    refine ⟨rfl, rfl, (fun _ _ h => by cases h), ?_, ?_, ?_⟩
    · simp only; split <;> rfl
    · simp only; split <;> rfl
    · intro h; simp at h
  | cons i r => exact ⟨rfl, rfl, (fun _ _ h => by cases h), rfl, rfl, id⟩

theorem deliverVals_tfacts (c : Cfg) (s : St) (i : Nat) (l : List Nat) :
    (deliverVals c s i l).trk = s.trk ∧ (deliverVals c s i l).toWait = s.toWait ∧
    (deliverVals c s i l).outcome = s.outcome := by
  unfold deliverVals
  refine ⟨?_, ?_, ?_⟩ <;> (simp only; split <;> rfl)

theorem stepCaller_tinv (c : Cfg) (s : St) (h : TInv c s) : TInv c (stepCaller c s) := by
  cases hpc : s.pc
  case dAcq k bs =>
    unfold stepCaller
    simp only [hpc]
    have hd := (dispatchLocked_cases c 0 false bs { s with lockOwner := some 0, pc := .dIn k }).tview
    generalize dispatchLocked c 0 false bs { s with lockOwner := some 0, pc := .dIn k } = r at hd
    obtain ⟨s', x⟩ := r
    cases x <;>
    · refine h.move (by simp [Pc.inGetStatus]) (by simp) hd.wait ?_
      rintro (hm | hm | hm)
      · simp [Pc.carriesTO] at hm
      · exact Or.inr (Or.inl (hd.to hm))
      · exact Or.inr (Or.inr (hd.outcome ▸ hm))
  case resStatus i =>
    unfold stepCaller
    simp only [hpc]
    have hv := returnOrRaise_to s i
    generalize returnOrRaise s i = r at hv
    obtain ⟨s', x⟩ := r
    obtain ⟨h1, h2, h3, h4, h5⟩ := hv
    cases x with
    | error e =>
      refine h.move (by simp [Pc.inGetStatus]) (by simp) h3 ?_
      rintro (hm | hm | hm)
      · have : e = .timeout := by cases e <;> simp [Pc.carriesTO] at hm; rfl
        subst this; exact Or.inr (Or.inl (h1 rfl))
      · exact Or.inr (Or.inl (h2 hm))
      · exact Or.inr (Or.inr (h4 ▸ hm))
    | ok l =>
      obtain ⟨f1, f2, f3⟩ := deliverVals_tfacts c s' i l
      refine h.move (by simp [Pc.inGetStatus]) (by simp) (f2.trans h3) ?_
      rintro (hm | hm | hm)
      · simp [Pc.carriesTO] at hm
      · exact Or.inr (Or.inl (h2 (f1 ▸ hm)))
      · exact Or.inr (Or.inr (h4 ▸ f3 ▸ hm))
  case refStatus i =>
    unfold stepCaller
    simp only [hpc]
    have hv := returnOrRaise_to s i
    generalize returnOrRaise s i = r at hv
    obtain ⟨s', x⟩ := r
    obtain ⟨h1, h2, h3, h4, h5⟩ := hv
    cases x with
    | error e =>
      refine h.move (by simp [Pc.inGetStatus]) (by simp) h3 ?_
      rintro (hm | hm | hm)
      · have : e = .timeout := by cases e <;> simp [Pc.carriesTO] at hm; rfl
        subst this; exact Or.inr (Or.inl (h1 rfl))
      · exact Or.inr (Or.inl (h2 hm))
      · exact Or.inr (Or.inr (h4 ▸ hm))
    | ok l =>
      refine h.move (by simp [Pc.inGetStatus]) (by simp) h3 ?_
      rintro (hm | hm | hm)
      · simp [Pc.carriesTO] at hm
      · exact Or.inr (Or.inl (h2 hm))
      · exact Or.inr (Or.inr (h4 ▸ hm))
  case tailStatus i rem =>
    unfold stepCaller
    simp only [hpc]
    have hv := returnOrRaise_to s i
    generalize returnOrRaise s i = r at hv
    obtain ⟨s', x⟩ := r
    obtain ⟨h1, h2, h3, h4, h5⟩ := hv
    cases x with
    | error e =>
      refine h.move (s' := finishRaise s' e) (by simp [finishRaise, Pc.inGetStatus]) (by simp [finishRaise]) h3 ?_
      rintro (hm | hm | hm)
      · simp [finishRaise, Pc.carriesTO] at hm
      · exact Or.inr (Or.inl (h2 hm))
      · simp only [finishRaise, ev, Option.some.injEq, Outcome.raised.injEq] at hm
        subst hm; exact Or.inr (Or.inl (h1 rfl))
    | ok l =>
      obtain ⟨f1, f2, f3⟩ := deliverVals_tfacts c s' i l
      obtain ⟨g1, g2, g3, g4, g5, g6⟩ := tailNext_tfacts c (deliverVals c s' i l) rem
      refine h.move (s' := tailNext c (deliverVals c s' i l) rem) (by rw [g1]; simp) g3 (g5.trans (f2.trans h3)) ?_
      rintro (hm | hm | hm)
      · rw [g2] at hm; cases hm
      · exact Or.inr (Or.inl (h2 (f1 ▸ g4 ▸ hm)))
      · exact Or.inr (Or.inr (h4 ▸ f3 ▸ g6 hm))
  case finSetW e rem =>
    unfold stepCaller
    simp only [hpc]
    cases e with
    | some e =>
      refine h.move (s' := finishRaise _ e) (by simp [finishRaise, Pc.inGetStatus]) (by simp [finishRaise]) rfl ?_
      rintro (hm | hm | hm)
      · simp [finishRaise, Pc.carriesTO] at hm
      · exact Or.inr (Or.inl hm)
      · simp only [finishRaise, ev, Option.some.injEq, Outcome.raised.injEq] at hm
        subst hm; left; rw [hpc]; rfl
    | none =>
      obtain ⟨g1, g2, g3, g4, g5, g6⟩ := tailNext_tfacts c { s with pc := Pc.finSetW none rem, jobsSet := [], running := false } rem
      refine h.move (by rw [g1]; simp) g3 g5 ?_
      rintro (hm | hm | hm)
      · rw [g2] at hm; cases hm
      · exact Or.inr (Or.inl (g4 ▸ hm))
      · exact Or.inr (Or.inr (g6 hm))
  case refRel e =>
    unfold stepCaller
    cases e <;> simp only [hpc] <;>
    · refine h.move (by simp [Pc.inGetStatus]) (by simp) rfl ?_
      rintro (hm | hm | hm)
      · simp [Pc.carriesTO] at hm
      · exact Or.inr (Or.inl hm)
      · exact Or.inr (Or.inr hm)
  case abortCall e =>
    unfold stepCaller
    simp only [hpc, ev, dropParked]
    refine h.move (by simp [Pc.inGetStatus]) (by simp) (by simp only; split <;> rfl) ?_
    rintro (hm | hm | hm)
    · left; rw [hpc]; cases e <;> simp_all [Pc.carriesTO]
    · refine Or.inr (Or.inl ?_)
      simp only at hm
      split at hm
      · exact hasTO_dropParked hm
      · exact hm
    · refine Or.inr (Or.inr ?_)
      simp only at hm
      split at hm <;> exact hm
  case gsStatus i k =>
    have hT := h.code (by rw [hpc]; rfl)
    unfold stepCaller
    simp only [hpc]
    split
    · refine h.move (by simp [Pc.inGetStatus]) (by simp) rfl ?_
      rintro (hm | hm | hm)
      · simp [Pc.carriesTO] at hm
      · exact Or.inr (Or.inl hm)
      · exact Or.inr (Or.inr hm)
    · have hto : hasTO (s.trk.set i { getTrk s i with tcnt := some ((getTrk s i).tcnt.getD s.clock) }) → hasTO s.trk :=
        fun hh => (hasTO_set hh).elim id (fun e => ⟨i, e⟩)
      split
      · rename_i hexp
        refine ⟨fun _ => hT, ?_, ?_⟩
        · intro i' k' hp
          simp only [Pc.toAcq.injEq] at hp
          rw [← hp.1]
          simp only [setTrk] at hexp ⊢
          by_cases hlt : i < s.trk.length
          · rw [getT_set, if_pos ⟨rfl, hlt⟩]; exact hexp
          · exfalso
            have : getTrk s i = default := getT_of_ge _ _ (by omega)
            rw [this] at hexp
            have hd : (default : Tracker).tcnt = none := rfl
            rw [hd] at hexp
            simp at hexp
        · rintro (hm | hm | hm)
          · simp [Pc.carriesTO] at hm
          · obtain ⟨T, j, t0, t1, a, b, d⟩ := h.wait (Or.inr (Or.inl (hto hm)))
            exact ⟨T, j, t0, t1, a, b, d⟩
          · obtain ⟨T, j, t0, t1, a, b, d⟩ := h.wait (Or.inr (Or.inr hm))
            exact ⟨T, j, t0, t1, a, b, d⟩
      · refine h.move (by simp [Pc.inGetStatus]) (by simp) rfl ?_
        rintro (hm | hm | hm)
        · simp [Pc.carriesTO] at hm
        · exact Or.inr (Or.inl (hto hm))
        · exact Or.inr (Or.inr hm)
  case toAcq i k =>
    have hT := h.code (by rw [hpc]; rfl)
    have hE := h.exp i k hpc
    unfold stepCaller
    simp only [hpc]
    split
    · refine h.move (by simp [Pc.inGetStatus, hT]) (by simp) rfl ?_
      rintro (hm | hm | hm)
      · simp [Pc.carriesTO] at hm
      · exact Or.inr (Or.inl hm)
      · exact Or.inr (Or.inr hm)
    · refine ⟨fun _ => hT, by simp, ?_⟩
      intro _
      obtain ⟨T, hT'⟩ := Option.isSome_iff_exists.mp hT
      refine ⟨T, i, (getTrk s i).tcnt.getD s.clock, s.clock, hT', rfl, ?_⟩
      rw [hT'] at hE
      simpa using hE
  case toRel i k reg =>
    have hT := h.code (by rw [hpc]; rfl)
    unfold stepCaller
    simp only [hpc]
    cases reg with
    | false =>
      simp only [Bool.false_eq_true, if_false]
      refine h.move (by simp [Pc.inGetStatus]) (by simp) rfl ?_
      rintro (hm | hm | hm)
      · simp [Pc.carriesTO] at hm
      · exact Or.inr (Or.inl hm)
      · exact Or.inr (Or.inr hm)
    | true =>
      simp only [if_true]
      refine ⟨fun _ => hT, by simp, ?_⟩
      intro _
      obtain ⟨T, j, t0, t1, a, b, d⟩ := h.wait (Or.inl (by rw [hpc]; rfl))
      exact ⟨T, j, t0, t1, a, b, d⟩
  case resetAcq =>
    unfold stepCaller
    simp only [hpc]
    split
    · refine h.move (s' := finishRaise s .runtime) (by simp [finishRaise, Pc.inGetStatus]) (by simp [finishRaise]) rfl ?_
      rintro (hm | hm | hm)
      · simp [finishRaise, Pc.carriesTO] at hm
      · exact Or.inr (Or.inl hm)
      · simp [finishRaise, ev] at hm
    · refine h.move' _ rfl (by simp [Pc.inGetStatus]) (by simp) (by simp [Pc.carriesTO]) rfl id rfl
  case excW e =>
    unfold stepCaller
    simp only [hpc]
    exact h.move' _ rfl (by simp [Pc.inGetStatus]) (by simp) (by rw [hpc]; cases e <;> simp [Pc.carriesTO]) rfl id rfl
  case abortW e =>
    unfold stepCaller
    simp only [hpc]
    split <;>
      exact h.move' _ rfl (by simp [Pc.inGetStatus]) (by simp) (by rw [hpc]; cases e <;> simp [Pc.carriesTO]) rfl id rfl
  case finExc e =>
    unfold stepCaller
    simp only [hpc]
    split <;>
      exact h.move' _ rfl (by simp [Pc.inGetStatus]) (by simp)
        (by rw [hpc]; cases e with | none => simp [Pc.carriesTO] | some e => cases e <;> simp [Pc.carriesTO]) rfl id rfl
  case finJobsR e =>
    unfold stepCaller
    simp only [hpc]
    exact h.move' _ rfl (by simp [Pc.inGetStatus]) (by simp)
      (by rw [hpc]; cases e with | none => simp [Pc.carriesTO] | some e => cases e <;> simp [Pc.carriesTO]) rfl id rfl
  case finJobsW e rem =>
    unfold stepCaller
    simp only [hpc]
    exact h.move' _ rfl (by simp [Pc.inGetStatus]) (by simp)
      (by rw [hpc]; cases e with | none => simp [Pc.carriesTO] | some e => cases e <;> simp [Pc.carriesTO]) rfl id rfl
  case dIn k => unfold stepCaller; simp only [hpc]; exact h
  case done => unfold stepCaller; simp only [hpc]; exact h
  all_goals
    have hcode := h.code
    rw [hpc] at hcode
    unfold stepCaller
    simp only [hpc]
  all_goals repeat' split
  all_goals refine h.move' _ rfl ?_ ?_ ?_ ?_ ?_ ?_
  all_goals first
    | rfl
    | exact id
    | (simp [Pc.inGetStatus, Pc.carriesTO]; done)
    | (intro _; exact hcode rfl)
    | exact (afterDispatch_facts _ _ _).2.2
    | exact (getStatusEntry_facts _ _ _).2.2
    | exact (getStatusEntry_facts _ _ _).1
    | (rw [(afterDispatch_facts _ _ _).1]; simp; done)
    | (rw [(afterDispatch_facts _ _ _).2.1]; simp; done)
    | (rw [(getStatusEntry_facts _ _ _).2.1]; simp; done)
    | (simp only [appendOutcome]; split <;> rfl)
    | (intro hm; exact hasTO_set_same (by rfl) hm)
    | (intro hm; simp only [appendOutcome] at hm; split at hm <;> exact hm)
    | (intro hm; simp only [doSubmit, setCb, setTrk, ev] at hm; exact hasTO_set_same (by rfl) hm)

/-! ### the other threads -/

theorem TInv.tview {c : Cfg} {s s' : St} (h : TInv c s) (v : TView s s') (hp : s'.pc = s.pc) : TInv c s' := by
  refine ⟨hp ▸ h.code, ?_, ?_⟩
  · intro i k hpc
    rw [v.clock, v.tcnt]
    exact h.exp i k (hp ▸ hpc)
  · rintro (hm | hm | hm)
    · obtain ⟨T, j, t0, t1, a, b, d⟩ := h.wait (Or.inl (hp ▸ hm))
      exact ⟨T, j, t0, t1, a, v.wait ▸ b, d⟩
    · obtain ⟨T, j, t0, t1, a, b, d⟩ := h.wait (Or.inr (Or.inl (v.to hm)))
      exact ⟨T, j, t0, t1, a, v.wait ▸ b, d⟩
    · obtain ⟨T, j, t0, t1, a, b, d⟩ := h.wait (Or.inr (Or.inr (v.outcome ▸ hm)))
      exact ⟨T, j, t0, t1, a, v.wait ▸ b, d⟩

/-- Rewriting tracker `i` without touching its counter and without giving it a TimeoutError. -/
theorem tview_setTrk (s : St) (i : Nat) (t : Tracker) (hc : t.tcnt = (getT s.trk i).tcnt)
    (hr : t.result = (getT s.trk i).result ∨ t.result ≠ .exc .timeout) : TView s (setTrk s i t) := by
  refine ⟨?_, rfl, rfl, rfl, fun j => tcnt_set_same _ _ _ _ hc⟩
  intro hh
  rcases hasTO_set hh with h1 | h1
  · exact h1
  · rcases hr with hr | hr
    · exact ⟨i, hr ▸ h1⟩
    · exact absurd h1 hr

theorem setCb_tview (s : St) (i : Nat) (p : CbPc) : TView s (setCb s i p) :=
  tview_setTrk s i _ rfl (Or.inl rfl)

/-- A state that differs from `s` in fields the timeout invariant does not read. -/
theorem tview_of_same {s s0 : St} (h1 : s0.trk = s.trk) (h2 : s0.toWait = s.toWait) (h3 : s0.outcome = s.outcome)
    (h4 : s0.clock = s.clock) : TView s s0 :=
  ⟨fun h => h1 ▸ h, h2, h3, h4, fun i => by rw [h1]⟩

theorem setCb_tview' {s : St} (s0 : St) (i : Nat) (p : CbPc) (h1 : s0.trk = s.trk) (h2 : s0.toWait = s.toWait)
    (h3 : s0.outcome = s.outcome) (h4 : s0.clock = s.clock) : TView s (setCb s0 i p) :=
  (tview_of_same h1 h2 h3 h4).trans (setCb_tview s0 i p)

theorem cbAfterDispatch_tview (i : Nat) (s : St) (r : Bool) : TView s (cbAfterDispatch i s r) := by
  unfold cbAfterDispatch
  split
  · exact setCb_tview' _ i .relC rfl rfl rfl rfl
  · exact setCb_tview' _ i .relC rfl rfl rfl rfl

theorem cbDispatchResult_tview {c : Cfg} {bs : Nat} {s : St} (i : Nat) {r : St × DRes} (hd : DLCase c bs s r) :
    TView s (cbDispatchResult i r) := by
  have h1 : TView s r.1 := hd.tview
  obtain ⟨s', x⟩ := r
  cases x with
  | submit j => exact h1.trans (setCb_tview s' i _)
  | ret b => exact h1.trans (cbAfterDispatch_tview i s' b)

theorem appendOutcome_tview (c : Cfg) (i : Nat) (s : St) : TView s (appendOutcome c i s) := by
  unfold appendOutcome; split <;> exact tview_of_same rfl rfl rfl rfl

theorem stepCb_tview (c : Cfg) (i : Nat) (s : St) : TView s (stepCb c i s) := by
  cases hpc : (getT s.trk i).pc
  case acqA =>
    simp only [stepCb, getTrk_def, hpc]
    exact ite_prop (P := TView s) (fun _ => setCb_tview s i _)
      (fun _ => ite_prop (P := TView s) (fun _ => setCb_tview s i _)
        (fun _ => setCb_tview' _ i _ rfl rfl rfl rfl))
  case retr =>
    simp only [stepCb, getTrk_def, hpc]
    refine ite_prop (P := TView s) (fun _ => setCb_tview' _ i _ rfl rfl rfl rfl) (fun _ => ?_)
    cases (getT s.trk i).failed with
    | some id =>
      simp only []
      have a : TView s ({ s with lockOwner := none, exception := true, aborting := true } : St) :=
        tview_of_same rfl rfl rfl rfl
      refine TView.trans (b := setTrk { s with lockOwner := none, exception := true, aborting := true } i _)
        (a.trans (tview_setTrk { s with lockOwner := none, exception := true, aborting := true } i _ ?_ ?_))
        (appendOutcome_tview c i _)
      · rfl
      · right; simp
    | none =>
      simp only []
      have a : TView s ({ s with lockOwner := none } : St) := tview_of_same rfl rfl rfl rfl
      refine TView.trans (b := setTrk { s with lockOwner := none } i _)
        (a.trans (tview_setTrk { s with lockOwner := none } i _ ?_ ?_))
        (appendOutcome_tview c i _)
      · rfl
      · right; simp
  case acqC =>
    simp only [stepCb, getTrk_def, hpc]
    refine ite_prop (P := TView s) (fun _ => ?_) (fun _ => setCb_tview' _ i _ rfl rfl rfl rfl)
    have h0 : TView s (setCb { s with lockOwner := some (i + 1), nCompleted := s.nCompleted + (getT s.trk i).bsize } i .bsC) :=
      setCb_tview' _ i .bsC rfl rfl rfl rfl
    refine ite_prop (P := TView s) (fun _ => ?_) (fun _ => ite_prop (P := TView s) (fun _ => h0) (fun _ => ?_))
    · exact h0.trans (cbAfterDispatch_tview i _ false)
    · exact h0.trans (cbDispatchResult_tview i (dispatchLocked_cases c (i + 1) true _ _))
  case bsC =>
    simp only [stepCb, getTrk_def, hpc]
    exact TView.trans (b := { s with bsI := s.bsI + 1 }) (tview_of_same rfl rfl rfl rfl)
      (cbDispatchResult_tview i (dispatchLocked_cases c (i + 1) true _ _))
  case submitC j =>
    simp only [stepCb, getTrk_def, hpc]
    refine TView.trans (b := doSubmit (i + 1) j (setCb s i .bsC)) ?_ (cbAfterDispatch_tview i _ true)
    exact (setCb_tview s i .bsC).trans (setCb_tview' (ev (setCb s i .bsC) _) j .parked rfl rfl rfl rfl)
  all_goals
    simp only [stepCb, getTrk_def, hpc]
    first | exact TView.refl s | exact setCb_tview s i _

theorem step_tinv (c : Cfg) (s : St) (h : TInv c s) (a : Act) : TInv c (step c s a) := by
  cases a with
  | thread t =>
    cases t with
    | zero =>
      simp only [step]
      split
      · exact stepCaller_tinv c s h
      · exact h
    | succ i =>
      simp only [step]
      split
      · exact h.tview (stepCb_tview c i s) (stepCb_pc c i s)
      · exact h
  | complete k =>
    simp only [step]
    split
    · refine h.tview (s' := complete c _ s) ?_ rfl
      simp only [complete]
      refine (tview_of_same (s := s) (s0 := ev s _) rfl rfl rfl rfl).trans (tview_setTrk (ev s _) _ _ ?_ ?_)
      · rfl
      · left; rfl
    · exact h

theorem run_tinv (c : Cfg) (sched : List Act) : ∀ s, TInv c s → TInv c (run c s sched) := by
  induction sched with
  | nil => intro s h; exact h
  | cons a r ih => intro s h; exact ih _ (step_tinv c s h a)

end JoblibModel.ParallelLockU
