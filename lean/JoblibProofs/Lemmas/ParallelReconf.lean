import JoblibModel.ParallelReconf
namespace JoblibModel.ParallelReconf
open JoblibModel.ParallelProto JoblibModel.ParallelStartup

theorem runCallsV_same (c : Cfg) (guard : Bool) (fuel : Nat) (calls : List (CallSpec × Fault)) :
    ∀ (k base : Nat) (s : St),
      runCallsV guard fuel k base c (calls.map (fun x => (c, x.1, x.2))) s = runCallsF c guard fuel k base calls s := by
  induction calls with
  | nil => intro k base s; simp [runCallsV, runCallsF]
  | cons x rest ih =>
    intro k base s
    obtain ⟨spec, f⟩ := x
    simp only [List.map_cons, runCallsV, runCallsF]
    split
    · rfl
    · exact ih _ _ _

theorem lastCfg_same (c : Cfg) (calls : List (CallSpec × Fault)) :
    lastCfg c (calls.map (fun x => (c, x.1, x.2))) = c := by
  induction calls with
  | nil => rfl
  | cons x rest ih => simpa [lastCfg] using ih

theorem maxTimeout_same (c : Cfg) (calls : List (CallSpec × Fault)) :
    maxTimeout c (calls.map (fun x => (c, x.1, x.2))) = c.timeout.toNat := by
  induction calls with
  | nil => rfl
  | cons x rest ih => simp [maxTimeout, ih]

/-- Conservative extension: when every call carries the configuration of the object, the per-call model IS the old one. -/
theorem runScenarioV_same (c : Cfg) (guard : Bool) (enter : Fault) (calls : List (CallSpec × Fault)) (sched : List (List Nat)) :
    runScenarioV c guard enter (calls.map (fun x => (c, x.1, x.2))) sched = runScenarioF c guard enter calls sched := by
  have hspecs : (calls.map (fun x => (c, x.1, x.2))).map (·.2.1) = calls.map (·.1) := by
    simp [List.map_map, Function.comp_def]
  simp only [runScenarioV, runScenarioF, hspecs, maxTimeout_same, lastCfg_same, runCallsV_same]

end JoblibModel.ParallelReconf
