import JoblibModel.Lru
/-! Helper lemmas for C18 (kept apart from the property theorems). -/
namespace JoblibModel.Lru

variable {α : Type}

theorem total_append (a b : List (Item α)) : total (a ++ b) = total a + total b := by
  induction a with
  | nil => simp [total]
  | cons x xs ih => simp [total, ih]; omega

theorem total_nonneg (a : List (Item α)) : 0 ≤ total a := by
  induction a with
  | nil => simp [total]
  | cons x xs ih => simp [total]; omega

theorem total_take_drop (k : Nat) (a : List (Item α)) : total (a.take k) + total (a.drop k) = total a := by
  rw [← total_append, List.take_append_drop]

/-- The `break` test of the loop. -/
def Brk (tds tdi : Int) (dl : Option Int) (s n : Int) (it : Item α) : Prop :=
  s ≥ tds ∧ n ≥ tdi ∧ fresh dl it.access = true

theorem takeLoop_spec (tds tdi : Int) (dl : Option Int) :
    ∀ (xs : List (Item α)) (s n : Int),
      ∃ r, xs = takeLoop tds tdi dl xs s n ++ r ∧
        (∀ it r', r = it :: r' →
          Brk tds tdi dl (s + total (takeLoop tds tdi dl xs s n))
            (n + (takeLoop tds tdi dl xs s n).length) it) ∧
        (∀ j it, j < (takeLoop tds tdi dl xs s n).length → xs[j]? = some it →
          ¬ Brk tds tdi dl (s + total (xs.take j)) (n + j) it) := by
  intro xs
  induction xs with
  | nil => intro s n; exact ⟨[], by simp [takeLoop]⟩
  | cons x xs ih =>
    intro s n
    by_cases hb : s ≥ tds ∧ n ≥ tdi ∧ fresh dl x.access = true
    · refine ⟨x :: xs, ?_, ?_, ?_⟩
      · simp [takeLoop, hb]
      · intro it r' h
        simp only [List.cons.injEq] at h
        simp [takeLoop, hb, total, Brk, ← h.1]
      · intro j it hj
        simp [takeLoop, hb] at hj
    · obtain ⟨r, h1, h2, h3⟩ := ih (s + x.size) (n + 1)
      have hl : takeLoop tds tdi dl (x :: xs) s n
          = x :: takeLoop tds tdi dl xs (s + x.size) (n + 1) := by
        simp only [takeLoop]; rw [if_neg hb]
      refine ⟨r, ?_, ?_, ?_⟩
      · rw [hl]; simp; exact h1
      · intro it r' h
        have := h2 it r' h
        rw [hl]; simp only [total, List.length_cons]
        have e1 : s + (↑x.size + total (takeLoop tds tdi dl xs (s + ↑x.size) (n + 1)))
            = s + ↑x.size + total (takeLoop tds tdi dl xs (s + ↑x.size) (n + 1)) := by omega
        have e2 : n + ((takeLoop tds tdi dl xs (s + ↑x.size) (n + 1)).length + 1 : Nat)
            = n + 1 + (takeLoop tds tdi dl xs (s + ↑x.size) (n + 1)).length := by omega
        rw [e1, e2]; exact this
      · intro j it hj hget
        rw [hl] at hj
        cases j with
        | zero =>
          simp at hget; subst hget
          simpa [Brk, total] using hb
        | succ j =>
          simp at hj hget
          have := h3 j it hj hget
          simp only [List.take_succ_cons, total]
          have e1 : s + (↑x.size + total (List.take j xs)) = s + ↑x.size + total (List.take j xs) := by omega
          have e2 : n + ((j + 1 : Nat) : Int) = n + 1 + j := by omega
          rw [e1, e2]; exact this

theorem insertByAccess_perm (x : Item α) (l : List (Item α)) : (insertByAccess x l).Perm (x :: l) := by
  induction l with
  | nil => simp [insertByAccess]
  | cons y ys ih =>
    simp only [insertByAccess]
    split
    · exact List.Perm.refl _
    · exact (List.Perm.cons y ih).trans (List.Perm.swap x y ys)

theorem sortByAccess_perm (items : List (Item α)) : (sortByAccess items).Perm items := by
  induction items with
  | nil => simp [sortByAccess]
  | cons x xs ih =>
    simp only [sortByAccess]
    exact (insertByAccess_perm x _).trans (List.Perm.cons x ih)

theorem insertByAccess_sorted (x : Item α) (l : List (Item α))
    (h : l.Pairwise (fun a b => a.access ≤ b.access)) :
    (insertByAccess x l).Pairwise (fun a b => a.access ≤ b.access) := by
  induction l with
  | nil => simp [insertByAccess]
  | cons y ys ih =>
    simp only [insertByAccess]
    have hy := List.pairwise_cons.mp h
    split
    · rename_i hle
      refine List.pairwise_cons.mpr ⟨?_, h⟩
      intro z hz
      rcases List.mem_cons.mp hz with rfl | hz'
      · exact hle
      · have := hy.1 z hz'; omega
    · rename_i hnle
      refine List.pairwise_cons.mpr ⟨?_, ih hy.2⟩
      intro z hz
      have hz' : z ∈ x :: ys := (insertByAccess_perm x ys).mem_iff.mp hz
      rcases List.mem_cons.mp hz' with rfl | hz''
      · omega
      · exact hy.1 z hz''

theorem sortByAccess_sorted (items : List (Item α)) :
    (sortByAccess items).Pairwise (fun a b => a.access ≤ b.access) := by
  induction items with
  | nil => simp [sortByAccess]
  | cons x xs ih => exact insertByAccess_sorted x _ ih

theorem sortByAccess_length (items : List (Item α)) : (sortByAccess items).length = items.length :=
  (sortByAccess_perm items).length_eq

theorem total_perm {a b : List (Item α)} (h : a.Perm b) : total a = total b := by
  induction h with
  | nil => rfl
  | cons x _ ih => simp [total, ih]
  | swap x y l => simp [total]; omega
  | trans _ _ ih1 ih2 => omega

theorem minAccess_le (items : List (Item α)) (m : Int) (h : minAccess items = some m) :
    ∀ it ∈ items, m ≤ it.access := by
  induction items generalizing m with
  | nil => simp
  | cons x xs ih =>
    intro it hit
    simp only [minAccess] at h
    cases hm : minAccess xs with
    | none =>
      rw [hm] at h; simp at h
      cases xs with
      | nil => simp at hit; subst hit; omega
      | cons y ys => simp [minAccess] at hm; split at hm <;> simp at hm
    | some m' =>
      rw [hm] at h; simp at h
      have := ih m' hm
      rcases List.mem_cons.mp hit with rfl | h'
      · split at h <;> omega
      · have := this it h'; split at h <;> omega

theorem minAccess_mem (items : List (Item α)) (m : Int) (h : minAccess items = some m) :
    ∃ it ∈ items, it.access = m := by
  induction items generalizing m with
  | nil => simp [minAccess] at h
  | cons x xs ih =>
    simp only [minAccess] at h
    cases hm : minAccess xs with
    | none => rw [hm] at h; simp at h; exact ⟨x, by simp, h⟩
    | some m' =>
      rw [hm] at h; simp at h
      obtain ⟨it, hit, e⟩ := ih m' hm
      split at h
      · exact ⟨x, by simp, h⟩
      · exact ⟨it, by simp [hit], by omega⟩

theorem minAccess_none (items : List (Item α)) (h : minAccess items = none) : items = [] := by
  cases items with
  | nil => rfl
  | cons x xs => simp [minAccess] at h; split at h <;> simp at h

theorem itemsToDelete_prefix (items : List (Item α)) (l : Limits) :
    itemsToDelete items l <+: sortByAccess items := by
  unfold itemsToDelete
  split
  · exact List.nil_prefix
  · split
    · exact List.nil_prefix
    · obtain ⟨r, h, _⟩ := takeLoop_spec (toDeleteSize items l) (toDeleteItems items l) l.deadline
        (sortByAccess items) 0 0
      exact ⟨r, h.symm⟩

theorem itemsToDelete_append_survivors (items : List (Item α)) (l : Limits) :
    itemsToDelete items l ++ survivors items l = sortByAccess items := by
  obtain ⟨r, hr⟩ := itemsToDelete_prefix items l
  unfold survivors
  rw [← hr]; simp

end JoblibModel.Lru
