import JoblibModel.FuncCode
import JoblibProofs.Lemmas.FilterArgs
/-! Helper lemmas and specification predicates for C12 (`JoblibModel.FuncCode`). Core Lean only.

Plan: the single-location invariant of the F10 repair is a predicate on a CELL — what one directory
holds (`func_code.py`, the entries) together with the writer slot of that directory
(`CellInv`).  The state invariant `Inv` is `CellInv` of every directory's cell, plus, for every
wrapper, "its writer key is the slot of its directory".  A step through a wrapper at directory `d`
rewrites the cell of `d` as the single-location step did and leaves every other cell alone (it only
touches `table`, `live`, `wraps` besides). -/
namespace JoblibModel.FuncCode
open JoblibModel.FilterArgs (dget dset dget_dset_self dget_dset_ne)

variable {R : Type}

/-! ## dictionaries -/

theorem dget_ddel_self {ν : Type} (k : Nat) (d : List (Nat × ν)) : dget k (ddel k d) = none := by
  induction d with
  | nil => rfl
  | cons x r ih =>
    obtain ⟨k', v⟩ := x
    by_cases h : k' = k
    · simp [ddel, h, ih]
    · simp [ddel, dget, h, ih]

theorem dget_ddel_ne {ν : Type} {k k' : Nat} (h : k' ≠ k) (d : List (Nat × ν)) :
    dget k' (ddel k d) = dget k' d := by
  induction d with
  | nil => rfl
  | cons x r ih =>
    obtain ⟨k'', v⟩ := x
    by_cases h1 : k'' = k
    · subst h1
      simp [ddel, dget, Ne.symm h, ih]
    · by_cases h2 : k'' = k'
      · subst h2; simp [ddel, dget, h1]
      · simp [ddel, dget, h1, h2, ih]

theorem dget_dset_cases {κ ν : Type} [DecidableEq κ] {k k' : κ} {v w : ν} {d : List (κ × ν)}
    (h : dget k' (dset k v d) = some w) : (k' = k ∧ w = v) ∨ (k' ≠ k ∧ dget k' d = some w) := by
  by_cases e : k' = k
  · subst e; rw [dget_dset_self] at h; cases h; exact .inl ⟨rfl, rfl⟩
  · rw [dget_dset_ne e] at h; exact .inr ⟨e, h⟩

/-! ## specification predicates -/

/-- What the property demands of one step: a call through a live wrapper whose function's CURRENT
code object has source `k` returns the value the code `k` computes on that argument (whether
served from the cache or executed), at whatever location the wrapper caches. -/
def Correct (sem : Src → Nat → R) (st : State R) : Op → Out R → Prop
  | .call w a, out =>
    match lookup st w with
    | some t => out = .value (sem t.cur.2 a) false ∨ out = .value (sem t.cur.2 a) true
    | none => out = .notLive
  | _, _ => True

/-- Every step of a history is `Correct`. -/
def AllCorrect (cfg : Cfg) (sem : Src → Nat → R) : State R → List Op → Prop
  | _, [] => True
  | st, op :: ops =>
    Correct sem st op (step cfg sem st op).1 ∧ AllCorrect cfg sem (step cfg sem st op).2 ops

/-- The step does not DELETE a `func_code.py` (truncations are allowed). -/
def NoDelete : Op → Prop
  | .damage _ .delete => False
  | _ => True

/-- Every `Memory` object addresses its directory under the directory's one canonical spelling
(`Memory(d)` and `Memory(d + "/.")` are not both used): the writer key of a new wrapper is the slot
of its directory. -/
def Canonical : Op → Prop
  | .wrap _ _ key dir => key = dir
  | _ => True

/-- The same for any version of the code: the writer key of a new wrapper is the slot of its
directory (always so once the key is the resolved directory). -/
def KeyOK (cfg : Cfg) : Op → Prop
  | .wrap _ _ key dir => wkey cfg key dir = dir
  | _ => True

/-- The step does not touch `func_code.py` of directory `d` from outside. -/
def NoDamageAt (d : Loc) : Op → Prop
  | .damage d' _ => d' ≠ d
  | _ => True

/-- An operation that clears or damages nothing AT DIRECTORY `d` and mentions no other source text
than `k` (other directories may be cleared with `Memory.clear()`, their `func_code.py` truncated, at
will). -/
def QuietAt (k : Src) (d : Loc) : Op → Prop
  | .define _ k' _ _ => k' = k
  | .wrap _ _ key dir => key = dir
  | .swap _ c => c.2 = k
  | .call _ _ => True
  | .check _ _ => True
  | .fresh => True
  | .clearFn _ => False
  | .clearAll d' => d' ≠ d
  | .damage d' dm => d' ≠ d ∧ dm ≠ .delete

instance (op : Op) : Decidable (NoDelete op) := by
  cases op <;> simp only [NoDelete] <;> try exact inferInstance
  rename_i d; cases d <;> exact inferInstance

instance (op : Op) : Decidable (Canonical op) := by
  cases op <;> simp only [Canonical] <;> exact inferInstance

instance (cfg : Cfg) (op : Op) : Decidable (KeyOK cfg op) := by
  cases op <;> simp only [KeyOK] <;> exact inferInstance

instance (d : Loc) (op : Op) : Decidable (NoDamageAt d op) := by
  cases op <;> simp only [NoDamageAt] <;> exact inferInstance

instance (k : Src) (d : Loc) (op : Op) : Decidable (QuietAt k d op) := by
  cases op <;> simp only [QuietAt] <;> exact inferInstance

instance [DecidableEq R] (sem : Src → Nat → R) (st : State R) (op : Op) (out : Out R) :
    Decidable (Correct sem st op out) := by
  cases op <;> simp only [Correct] <;> try exact inferInstance
  split <;> exact inferInstance

instance instDecidableAllCorrect [DecidableEq R] (cfg : Cfg) (sem : Src → Nat → R) :
    ∀ (st : State R) (ops : List Op), Decidable (AllCorrect cfg sem st ops)
  | _, [] => isTrue trivial
  | st, op :: ops =>
    have := instDecidableAllCorrect cfg sem (step cfg sem st op).2 ops
    show Decidable (_ ∧ _) from inferInstance

/-- The versions of the code the theorems are about: F10 and F38 repaired, the writer key names the
location. -/
structure Good (cfg : Cfg) : Prop where
  wc : cfg.writerCheck = true
  iu : cfg.infoIdUpdate = true
  kl : cfg.writerKeyHasLocation = true

theorem good_fixed : Good Cfg.fixed := ⟨rfl, rfl, rfl⟩
theorem good_resolved : Good Cfg.resolved := ⟨rfl, rfl, rfl⟩

theorem wkey_self {cfg : Cfg} (hg : Good cfg) (l : Loc) : wkey cfg l l = l := by
  simp [wkey, hg.kl]

theorem keyOK_of_canonical {op : Op} (h : Canonical op) : KeyOK Cfg.fixed op := by
  cases op <;> simp_all [Canonical, KeyOK, wkey, Cfg.fixed]

theorem keyOK_resolved (op : Op) : KeyOK Cfg.resolved op := by
  cases op <;> simp [KeyOK, wkey, Cfg.resolved]

/-! ## cells: one directory and its writer slot -/

/-- What directory `d` holds, and the writer recorded for it. -/
structure Cell (R : Type) where
  code : CodeFile
  entries : List (Nat × R)
  writer : Option (Obj × CodeId)

def cell (st : State R) (d : Loc) : Cell R :=
  ⟨(dirAt st d).code, (dirAt st d).entries, dget d st.writers⟩

/-- * no `func_code.py` ⇒ no entry in the function's directory, no recorded writer;
* every entry holds the value the STORED source computes, and the value the recorded writer's code
  computes; the two agree. -/
structure CellInv (sem : Src → Nat → R) (c : Cell R) : Prop where
  missing : c.code = .missing → c.entries = [] ∧ c.writer = none
  stored : ∀ s, c.code = .ok s → ∀ a r, dget a c.entries = some r → r = sem s a
  writer : ∀ o k, c.writer = some (o, k) → ∀ a r, dget a c.entries = some r → r = sem k.2 a
  agree : ∀ s o k, c.code = .ok s → c.writer = some (o, k) → k.2 = s

/-- A wrapper's cached source belongs to the code object recorded with it. -/
def InfoOK (ic : InfoCache) : Prop :=
  (ic.1 = none → ic.2 = none) ∧ ∀ c s, ic.1 = some c → ic.2 = some s → s = c.2

/-- The invariant of the repaired code, per location: every directory's cell has `CellInv`; every
wrapper's cached source is the source of the code object recorded with it, and its writer key is
the slot of its directory. -/
structure Inv (cfg : Cfg) (sem : Src → Nat → R) (st : State R) : Prop where
  dirs : ∀ d, CellInv sem (cell st d)
  wraps : ∀ w W, dget w st.wraps = some W → InfoOK W.ic ∧ wkey cfg W.key W.dir = W.dir

/-- The two facts about a resolved wrapper the proofs use. -/
def TOK (cfg : Cfg) (t : Target) : Prop := InfoOK t.ic ∧ wkey cfg t.key t.dir = t.dir

theorem cellInv_empty (sem : Src → Nat → R) : CellInv sem (⟨.missing, [], none⟩ : Cell R) :=
  ⟨fun _ => ⟨rfl, rfl⟩, fun s h => (by cases h), fun o k h => (by cases h), fun s o k h => (by cases h)⟩

theorem CellInv.dropWriter {sem : Src → Nat → R} {c : Cell R} (h : CellInv sem c) :
    CellInv sem ⟨c.code, c.entries, none⟩ :=
  ⟨fun hm => ⟨(h.missing hm).1, rfl⟩, h.stored, fun o k hw => (by cases hw), fun s o k _ hw => (by cases hw)⟩

theorem inv_init (cfg : Cfg) (sem : Src → Nat → R) : Inv cfg sem (init : State R) :=
  ⟨fun _ => cellInv_empty sem, fun w W h => by simp [init, dget] at h⟩

theorem infoOK_none : InfoOK (none, none) := ⟨fun _ => rfl, fun c s h => by cases h⟩

/-- The repaired `func_code_info` returns the source of the CURRENT code object. -/
theorem funcCodeInfo_fixed {cfg : Cfg} (hiu : cfg.infoIdUpdate = true) {cur : CodeId} {ic : InfoCache}
    (h : InfoOK ic) :
    (funcCodeInfo cfg cur ic).1 = cur.2 ∧ InfoOK (funcCodeInfo cfg cur ic).2 := by
  obtain ⟨i1, i2⟩ := ic
  obtain ⟨h1, h2⟩ := h
  simp only at h1 h2
  cases i1 with
  | none =>
    have : i2 = none := h1 rfl
    subst this
    simp [funcCodeInfo, InfoOK]
  | some c0 =>
    by_cases e : c0 = cur
    · subst e
      cases i2 with
      | none => simp [funcCodeInfo, InfoOK]
      | some s =>
        have := h2 c0 s rfl rfl
        subst this
        simp [funcCodeInfo, InfoOK]
    · simp [funcCodeInfo, e, hiu, InfoOK]

theorem wraps_dset {cfg : Cfg} {st : State R}
    (hw : ∀ w W, dget w st.wraps = some W → InfoOK W.ic ∧ wkey cfg W.key W.dir = W.dir)
    (w : Nat) {W : Wrapper} (hW : InfoOK W.ic ∧ wkey cfg W.key W.dir = W.dir) :
    ∀ w' W', dget w' (dset w W st.wraps) = some W' → InfoOK W'.ic ∧ wkey cfg W'.key W'.dir = W'.dir := by
  intro w' W' h
  by_cases e : w' = w
  · subst e; rw [dget_dset_self] at h; cases h; exact hW
  · rw [dget_dset_ne e] at h; exact hw w' W' h

/-- After the code check the directory belongs to the current code object's source. -/
structure Post (sem : Src → Nat → R) (c : Cell R) (cur : CodeId) : Prop where
  vals : ∀ a r, dget a c.entries = some r → r = sem cur.2 a
  code : ∀ s, c.code = .ok s → s = cur.2
  wr : ∀ o k, c.writer = some (o, k) → k.2 = cur.2
  present : c.code ≠ .missing

/-- A freshly written function directory. -/
theorem cellInv_written (sem : Src → Nat → R) (o : Obj) (cur : CodeId) (named : Bool) :
    CellInv sem (⟨.ok cur.2, [], if named then some (o, cur) else none⟩ : Cell R) ∧
      Post sem (⟨.ok cur.2, [], if named then some (o, cur) else none⟩ : Cell R) cur := by
  refine ⟨⟨fun h => (by cases h), fun s _ a r h => by simp [dget] at h, fun o' k _ a r h => by simp [dget] at h,
    fun s o' k h1 h2 => ?_⟩, ⟨fun a r h => by simp [dget] at h, fun s h => ?_, fun o' k h => ?_, by simp⟩⟩
  · cases named <;> simp at h1 h2
    obtain ⟨_, rfl⟩ := h2; exact h1
  · simp at h; exact h.symm
  · cases named <;> simp at h
    obtain ⟨_, rfl⟩ := h; rfl

/-! ## `_write_func_code`, `clear`: the cell of the wrapper's directory, and the frame -/

theorem dirAt_write_ne (cfg : Cfg) (st : State R) (t : Target) (src : Src) {d : Loc} (h : d ≠ t.dir) :
    dirAt (writeFuncCode cfg st t src) d = dirAt st d := by
  simp [writeFuncCode, dirAt, dget_dset_ne h]

theorem dirAt_clearWrite_ne (cfg : Cfg) (st : State R) (t : Target) (src : Src) {d : Loc} (h : d ≠ t.dir) :
    dirAt (clearWrite cfg st t src) d = dirAt st d := by
  simp [clearWrite, writeFuncCode, dirAt, dget_dset_ne h]

theorem cell_write {cfg : Cfg} (st : State R) {t : Target} (hk : wkey cfg t.key t.dir = t.dir) (src : Src) :
    cell (writeFuncCode cfg st t src) t.dir =
      ⟨.ok src, (dirAt st t.dir).entries, if t.named then some (t.o, t.cur) else none⟩ := by
  cases hn : t.named <;> simp [cell, writeFuncCode, dirAt, hk, hn, dget_dset_self, dget_ddel_self]

theorem cell_write_ne {cfg : Cfg} (st : State R) {t : Target} (hk : wkey cfg t.key t.dir = t.dir) (src : Src)
    {d : Loc} (h : d ≠ t.dir) : cell (writeFuncCode cfg st t src) d = cell st d := by
  cases hn : t.named <;>
    simp [cell, writeFuncCode, dirAt, hk, hn, dget_dset_ne h, dget_ddel_ne h]

theorem cell_clearWrite {cfg : Cfg} (st : State R) {t : Target} (hk : wkey cfg t.key t.dir = t.dir) (src : Src) :
    cell (clearWrite cfg st t src) t.dir =
      ⟨.ok src, [], if t.named then some (t.o, t.cur) else none⟩ := by
  rw [clearWrite, cell_write _ hk]
  simp [dirAt, dget_dset_self]

theorem cell_clearWrite_ne {cfg : Cfg} (st : State R) {t : Target} (hk : wkey cfg t.key t.dir = t.dir) (src : Src)
    {d : Loc} (h : d ≠ t.dir) : cell (clearWrite cfg st t src) d = cell st d := by
  rw [clearWrite, cell_write_ne _ hk _ h]
  simp [cell, dirAt, dget_dset_ne h]

/-- Writing the CURRENT source into an entry-less directory (first use, or after `clear_path`). -/
theorem inv_write {cfg : Cfg} {sem : Src → Nat → R} {st : State R} {t : Target}
    (hd : ∀ d, d ≠ t.dir → CellInv sem (cell st d))
    (hw : ∀ w W, dget w st.wraps = some W → InfoOK W.ic ∧ wkey cfg W.key W.dir = W.dir)
    (hk : wkey cfg t.key t.dir = t.dir) (he : (dirAt st t.dir).entries = []) :
    Inv cfg sem (writeFuncCode cfg st t t.cur.2) ∧
      Post sem (cell (writeFuncCode cfg st t t.cur.2) t.dir) t.cur := by
  have hc := cell_write st hk t.cur.2
  rw [he] at hc
  refine ⟨⟨fun d => ?_, hw⟩, ?_⟩
  · by_cases e : d = t.dir
    · subst e; rw [hc]; exact (cellInv_written sem t.o t.cur t.named).1
    · rw [cell_write_ne st hk _ e]; exact hd d e
  · rw [hc]; exact (cellInv_written sem t.o t.cur t.named).2

theorem inv_clearWrite {cfg : Cfg} {sem : Src → Nat → R} {st : State R} {t : Target}
    (hd : ∀ d, d ≠ t.dir → CellInv sem (cell st d))
    (hw : ∀ w W, dget w st.wraps = some W → InfoOK W.ic ∧ wkey cfg W.key W.dir = W.dir)
    (hk : wkey cfg t.key t.dir = t.dir) :
    Inv cfg sem (clearWrite cfg st t t.cur.2) ∧
      Post sem (cell (clearWrite cfg st t t.cur.2) t.dir) t.cur := by
  unfold clearWrite
  refine inv_write (fun d e => ?_) hw hk (by simp [dirAt, dget_dset_self])
  have : cell { st with disk := dset t.dir {} st.disk } d = cell st d := by
    simp [cell, dirAt, dget_dset_ne e]
  rw [this]; exact hd d e

/-- The repaired shortcut is sound: the directory belongs to this code object. -/
theorem shortcut_post {cfg : Cfg} (hg : Good cfg) {sem : Src → Nat → R} {st : State R}
    (hi : Inv cfg sem st) {t : Target} (hk : wkey cfg t.key t.dir = t.dir)
    (h : shortcut cfg st t = true) : Post sem (cell st t.dir) t.cur := by
  unfold shortcut at h
  split at h
  · simp [hg.wc, hk] at h
    obtain ⟨_, hw⟩ := h
    have hw' : (cell st t.dir).writer = some (t.o, t.cur) := hw
    have hc := hi.dirs t.dir
    refine ⟨hc.writer t.o t.cur hw', fun s hs => (hc.agree s t.o t.cur hs hw').symm, fun o' k hk' => ?_, fun hm => ?_⟩
    · rw [hw'] at hk'; cases hk'; rfl
    · have := (hc.missing hm).2; rw [hw'] at this; cases this
  · simp at h

/-- `_check_previous_func_code` (repaired): the invariant is kept, the live functions are
untouched, and afterwards the wrapper's directory belongs to the current code object's source. -/
theorem checkPrevious_spec {cfg : Cfg} (hg : Good cfg) {sem : Src → Nat → R} {st : State R}
    (hi : Inv cfg sem st) {t : Target} (ht : TOK cfg t) :
    let r := checkPrevious cfg st t
    Inv cfg sem r.2 ∧ Post sem (cell r.2 t.dir) t.cur ∧ r.2.live = st.live := by
  obtain ⟨hic, hk⟩ := ht
  obtain ⟨f1, f2⟩ := funcCodeInfo_fixed hg.iu (cur := t.cur) hic
  have hw' := wraps_dset hi.wraps t.w (W := t.wrapper (funcCodeInfo cfg t.cur t.ic).2) ⟨f2, hk⟩
  have hc := hi.dirs t.dir
  unfold checkPrevious
  split
  · rename_i hs
    exact ⟨hi, shortcut_post hg hi hk hs, rfl⟩
  · simp only [f1]
    cases hcode : (dirAt st t.dir).code with
    | missing =>
      simp only
      obtain ⟨a, b⟩ := inv_write (sem := sem)
        (st := { st with wraps := dset t.w (t.wrapper (funcCodeInfo cfg t.cur t.ic).2) st.wraps })
        (fun d _ => hi.dirs d) hw' hk (hc.missing hcode).1
      exact ⟨a, b, rfl⟩
    | unreadable =>
      simp only
      obtain ⟨a, b⟩ := inv_clearWrite (sem := sem)
        (st := { st with wraps := dset t.w (t.wrapper (funcCodeInfo cfg t.cur t.ic).2) st.wraps })
        (fun d _ => hi.dirs d) hw' hk
      exact ⟨a, b, rfl⟩
    | other =>
      simp only
      obtain ⟨a, b⟩ := inv_clearWrite (sem := sem)
        (st := { st with wraps := dset t.w (t.wrapper (funcCodeInfo cfg t.cur t.ic).2) st.wraps })
        (fun d _ => hi.dirs d) hw' hk
      exact ⟨a, b, rfl⟩
    | ok old =>
      simp only
      split
      · rename_i he
        subst he
        have hcode' : (cell st t.dir).code = .ok t.cur.2 := hcode
        refine ⟨⟨hi.dirs, hw'⟩, ⟨hc.stored t.cur.2 hcode', fun s hs => ?_,
          fun o' k hw => hc.agree t.cur.2 o' k hcode' hw, fun h => ?_⟩, rfl⟩
        · have hs' : (cell st t.dir).code = .ok s := hs
          rw [hcode'] at hs'; cases hs'; rfl
        · have h' : (cell st t.dir).code = .missing := h
          rw [hcode'] at h'; cases h'
      · obtain ⟨a, b⟩ := inv_clearWrite (sem := sem)
          (st := { st with wraps := dset t.w (t.wrapper (funcCodeInfo cfg t.cur t.ic).2) st.wraps })
          (fun d _ => hi.dirs d) hw' hk
        exact ⟨a, b, rfl⟩

/-! ## one step -/

theorem lookup_spec {st : State R} {w : Nat} {t : Target} (h : lookup st w = some t) :
    t.w = w ∧ dget w st.wraps = some ⟨t.o, t.key, t.dir, t.ic⟩ ∧
      dget t.o st.live = some (t.cur, t.named) := by
  unfold lookup at h
  split at h
  · cases h
  · rename_i W hW
    split at h
    · cases h
    · rename_i cur named hl
      cases h
      exact ⟨rfl, hW, hl⟩

theorem lookup_tok {cfg : Cfg} {sem : Src → Nat → R} {st : State R} (hi : Inv cfg sem st) {w : Nat}
    {t : Target} (h : lookup st w = some t) : TOK cfg t :=
  hi.wraps w _ (lookup_spec h).2.1

theorem lookup_live {st : State R} {w : Nat} {t : Target} (h : lookup st w = some t) :
    dget t.o st.live = some (t.cur, t.named) := (lookup_spec h).2.2

/-- Storing the value the current code computes, in a directory that belongs to it. -/
theorem inv_store {cfg : Cfg} {sem : Src → Nat → R} {st : State R} (hi : Inv cfg sem st) {d : Loc}
    {cur : CodeId} (hp : Post sem (cell st d) cur) (a : Nat) :
    Inv cfg sem { st with disk := dset d { dirAt st d with entries := dset a (sem cur.2 a) (dirAt st d).entries } st.disk } := by
  have key : ∀ a' r, dget a' (dset a (sem cur.2 a) (dirAt st d).entries) = some r → r = sem cur.2 a' := by
    intro a' r h
    by_cases e : a' = a
    · subst e; rw [dget_dset_self] at h; cases h; rfl
    · rw [dget_dset_ne e] at h; exact hp.vals a' r h
  refine ⟨fun d' => ?_, hi.wraps⟩
  by_cases e : d' = d
  · subst e
    have hc : cell { st with disk := dset d' { dirAt st d' with entries := dset a (sem cur.2 a) (dirAt st d').entries } st.disk } d'
        = ⟨(cell st d').code, dset a (sem cur.2 a) (dirAt st d').entries, (cell st d').writer⟩ := by
      simp [cell, dirAt, dget_dset_self]
    rw [hc]
    have h0 := hi.dirs d'
    refine ⟨fun h => absurd h hp.present, fun s hs a' r h => ?_, fun o k hw a' r h => ?_, h0.agree⟩
    · rw [hp.code s hs]; exact key a' r h
    · rw [hp.wr o k hw]; exact key a' r h
  · have hc : cell { st with disk := dset d { dirAt st d with entries := dset a (sem cur.2 a) (dirAt st d).entries } st.disk } d'
        = cell st d' := by
      simp [cell, dirAt, dget_dset_ne e]
    rw [hc]; exact hi.dirs d'

theorem cellInv_damage {sem : Src → Nat → R} {c : Cell R} (h : CellInv sem c) {dm : Damage}
    (hd : dm ≠ .delete) : CellInv sem ⟨applyDamage c.code dm, c.entries, c.writer⟩ := by
  cases hc : c.code with
  | missing => simpa [applyDamage, ← hc] using h
  | _ =>
    cases dm with
    | delete => exact absurd rfl hd
    | _ =>
      exact ⟨fun hm => (by simp [applyDamage] at hm), fun s hs => (by simp [applyDamage] at hs), h.writer,
        fun s o k hs => (by simp [applyDamage] at hs)⟩

/-- One step of the repaired code (other than deleting `func_code.py`), with the new wrapper's
writer key the slot of its directory, keeps the invariant and is `Correct`. -/
theorem step_spec {cfg : Cfg} (hg : Good cfg) {sem : Src → Nat → R} {st : State R} (hi : Inv cfg sem st)
    (op : Op) (hnd : NoDelete op) (hk : KeyOK cfg op) :
    Inv cfg sem (step cfg sem st op).2 ∧ Correct sem st op (step cfg sem st op).1 := by
  cases op with
  | define o k named loc =>
    exact ⟨⟨hi.dirs, wraps_dset hi.wraps o (W := ⟨o, loc, loc, (none, none)⟩) ⟨infoOK_none, wkey_self hg loc⟩⟩, trivial⟩
  | wrap w o key dir =>
    simp only [step]
    split
    · exact ⟨⟨hi.dirs, wraps_dset hi.wraps w (W := ⟨o, key, dir, (none, none)⟩) ⟨infoOK_none, hk⟩⟩, trivial⟩
    · exact ⟨hi, trivial⟩
  | swap o c =>
    simp only [step]
    split
    · exact ⟨⟨hi.dirs, hi.wraps⟩, trivial⟩
    · exact ⟨hi, trivial⟩
  | call w a =>
    simp only [step, Correct]
    cases hl : lookup st w with
    | none => exact ⟨hi, rfl⟩
    | some t =>
      obtain ⟨h1, h2, _⟩ := checkPrevious_spec hg hi (lookup_tok hi hl)
      simp only [isInCache]
      cases hr : (if (checkPrevious cfg st t).1 = true then
          dget a (dirAt (checkPrevious cfg st t).2 t.dir).entries else none) with
      | some v =>
        simp only
        refine ⟨h1, .inl ?_⟩
        split at hr
        · rw [h2.vals a v hr]
        · cases hr
      | none =>
        simp only
        exact ⟨inv_store h1 h2 a, by simp⟩
  | check w a =>
    simp only [step]
    cases hl : lookup st w with
    | none => exact ⟨hi, trivial⟩
    | some t => exact ⟨(checkPrevious_spec hg hi (lookup_tok hi hl)).1, trivial⟩
  | clearFn w =>
    simp only [step]
    cases hl : lookup st w with
    | none => exact ⟨hi, trivial⟩
    | some t =>
      obtain ⟨hic, hkk⟩ := lookup_tok hi hl
      obtain ⟨f1, f2⟩ := funcCodeInfo_fixed hg.iu (cur := t.cur) hic
      simp only [f1]
      exact ⟨(inv_clearWrite (sem := sem)
        (st := { st with wraps := dset w (t.wrapper (funcCodeInfo cfg t.cur t.ic).2) st.wraps })
        (fun d _ => hi.dirs d) (wraps_dset hi.wraps w (W := t.wrapper (funcCodeInfo cfg t.cur t.ic).2) ⟨f2, hkk⟩) hkk).1,
        trivial⟩
  | clearAll d =>
    refine ⟨⟨fun d' => ?_, hi.wraps⟩, trivial⟩
    by_cases e : d' = d
    · subst e
      have : cell (step cfg sem st (.clearAll d')).2 d' = ⟨.missing, [], none⟩ := by
        simp [step, cell, dirAt, dget_dset_self, dget]
      rw [this]; exact cellInv_empty sem
    · have : cell (step cfg sem st (.clearAll d)).2 d' = ⟨(cell st d').code, (cell st d').entries, none⟩ := by
        simp [step, cell, dirAt, dget_dset_ne e, dget]
      rw [this]; exact (hi.dirs d').dropWriter
  | damage d dm =>
    refine ⟨⟨fun d' => ?_, hi.wraps⟩, trivial⟩
    by_cases e : d' = d
    · subst e
      have : cell (step cfg sem st (.damage d' dm)).2 d' =
          ⟨applyDamage (cell st d').code dm, (cell st d').entries, (cell st d').writer⟩ := by
        simp [step, cell, dirAt, dget_dset_self]
      rw [this]
      refine cellInv_damage (hi.dirs d') ?_
      intro h; subst h; exact hnd
    · have : cell (step cfg sem st (.damage d dm)).2 d' = cell st d' := by
        simp [step, cell, dirAt, dget_dset_ne e]
      rw [this]; exact hi.dirs d'
  | fresh =>
    refine ⟨⟨fun d' => ?_, fun w W h => by simp [step, dget] at h⟩, trivial⟩
    have : cell (step cfg sem st .fresh).2 d' = ⟨(cell st d').code, (cell st d').entries, none⟩ := by
      simp [step, cell, dirAt, dget]
    rw [this]; exact (hi.dirs d').dropWriter

theorem allCorrect_of_inv {cfg : Cfg} (hg : Good cfg) {sem : Src → Nat → R} :
    ∀ (ops : List Op) (st : State R), Inv cfg sem st →
    (∀ op ∈ ops, NoDelete op) → (∀ op ∈ ops, KeyOK cfg op) → AllCorrect cfg sem st ops
  | [], _, _, _, _ => trivial
  | op :: ops, _, hi, hnd, hk =>
    ⟨(step_spec hg hi op (hnd op List.mem_cons_self) (hk op List.mem_cons_self)).2,
      allCorrect_of_inv hg ops _ (step_spec hg hi op (hnd op List.mem_cons_self) (hk op List.mem_cons_self)).1
        (fun o ho => hnd o (List.mem_cons_of_mem _ ho)) (fun o ho => hk o (List.mem_cons_of_mem _ ho))⟩

theorem inv_exec {cfg : Cfg} (hg : Good cfg) {sem : Src → Nat → R} :
    ∀ (ops : List Op) (st : State R), Inv cfg sem st →
    (∀ op ∈ ops, NoDelete op) → (∀ op ∈ ops, KeyOK cfg op) → Inv cfg sem (exec cfg sem st ops)
  | [], _, hi, _, _ => hi
  | op :: ops, _, hi, hnd, hk =>
    inv_exec hg ops _ (step_spec hg hi op (hnd op List.mem_cons_self) (hk op List.mem_cons_self)).1
      (fun o ho => hnd o (List.mem_cons_of_mem _ ho)) (fun o ho => hk o (List.mem_cons_of_mem _ ho))

theorem exec_append (cfg : Cfg) (sem : Src → Nat → R) : ∀ (a b : List Op) (st : State R),
    exec cfg sem st (a ++ b) = exec cfg sem (exec cfg sem st a) b
  | [], _, _ => rfl
  | _ :: a, b, _ => exec_append cfg sem a b _

theorem quiet_noDelete {k : Src} {d : Loc} {op : Op} (h : QuietAt k d op) : NoDelete op := by
  cases op <;> simp [QuietAt, NoDelete] at h ⊢
  rename_i d' dm
  cases dm <;> simp_all

theorem quiet_canonical {k : Src} {d : Loc} {op : Op} (h : QuietAt k d op) : Canonical op := by
  cases op <;> simp_all [QuietAt, Canonical]

/-! ## locations are independent (every version of the code) -/

theorem dirAt_checkPrevious_ne (cfg : Cfg) (st : State R) (t : Target) {d : Loc} (h : d ≠ t.dir) :
    dirAt (checkPrevious cfg st t).2 d = dirAt st d := by
  unfold checkPrevious
  split
  · rfl
  · cases (dirAt st t.dir).code with
    | missing => exact dirAt_write_ne cfg _ t _ h
    | unreadable => exact dirAt_clearWrite_ne cfg _ t _ h
    | other => exact dirAt_clearWrite_ne cfg _ t _ h
    | ok old =>
      simp only
      split
      · rfl
      · exact dirAt_clearWrite_ne cfg _ t _ h

/-- A step that works on another directory (or on none) leaves directory `d` — `func_code.py` and
the entries — exactly as it was.  For EVERY version of the code. -/
theorem step_frame (cfg : Cfg) (sem : Src → Nat → R) (st : State R) (op : Op) (d : Loc)
    (h : opDir st op ≠ some d) : dirAt (step cfg sem st op).2 d = dirAt st d := by
  cases op with
  | define o k named loc => rfl
  | wrap w o key dir => simp only [step]; split <;> rfl
  | swap o c => simp only [step]; split <;> rfl
  | call w a =>
    simp only [step]
    cases hl : lookup st w with
    | none => rfl
    | some t =>
      have hd : d ≠ t.dir := by
        intro e; apply h; simp [opDir, hl, e]
      simp only [isInCache]
      split
      · exact dirAt_checkPrevious_ne cfg st t hd
      · show dirAt { (checkPrevious cfg st t).2 with disk := _ } d = _
        rw [← dirAt_checkPrevious_ne cfg st t hd]
        simp [dirAt, dget_dset_ne hd]
  | check w a =>
    simp only [step]
    cases hl : lookup st w with
    | none => rfl
    | some t =>
      have hd : d ≠ t.dir := by
        intro e; apply h; simp [opDir, hl, e]
      exact dirAt_checkPrevious_ne cfg st t hd
  | clearFn w =>
    simp only [step]
    cases hl : lookup st w with
    | none => rfl
    | some t =>
      have hd : d ≠ t.dir := by
        intro e; apply h; simp [opDir, hl, e]
      exact dirAt_clearWrite_ne cfg _ t _ hd
  | clearAll d' =>
    have hd : d ≠ d' := by intro e; apply h; simp [opDir, e]
    simp [step, dirAt, dget_dset_ne hd]
  | damage d' dm =>
    have hd : d ≠ d' := by intro e; apply h; simp [opDir, e]
    simp [step, dirAt, dget_dset_ne hd]
  | fresh => rfl

/-! ## the shortcut and the stored code -/

/-- `func_code.py` of directory `d` is absent or holds a source text (it was not truncated). -/
def Intact (st : State R) (d : Loc) : Prop :=
  (dirAt st d).code = .missing ∨ ∃ s, (dirAt st d).code = .ok s

theorem intact_init (d : Loc) : Intact (init : State R) d := .inl rfl

theorem code_write (cfg : Cfg) (st : State R) (t : Target) (src : Src) :
    (dirAt (writeFuncCode cfg st t src) t.dir).code = .ok src := by
  simp [writeFuncCode, dirAt, dget_dset_self]

theorem code_clearWrite (cfg : Cfg) (st : State R) (t : Target) (src : Src) :
    (dirAt (clearWrite cfg st t src) t.dir).code = .ok src := code_write cfg _ t src

theorem intact_checkPrevious (cfg : Cfg) (st : State R) (t : Target) (d : Loc) (h : Intact st d) :
    Intact (checkPrevious cfg st t).2 d := by
  by_cases e : d = t.dir
  · subst e
    unfold checkPrevious
    split
    · exact h
    · cases (dirAt st t.dir).code with
      | missing => exact .inr ⟨_, code_write cfg _ t _⟩
      | unreadable => exact .inr ⟨_, code_clearWrite cfg _ t _⟩
      | other => exact .inr ⟨_, code_clearWrite cfg _ t _⟩
      | ok old =>
        simp only
        split
        · exact h
        · exact .inr ⟨_, code_clearWrite cfg _ t _⟩
  · unfold Intact; rw [dirAt_checkPrevious_ne cfg st t e]; exact h

/-- A step other than a fault at `d` keeps `func_code.py` of `d` absent-or-a-source-text. -/
theorem intact_step (cfg : Cfg) (sem : Src → Nat → R) (st : State R) (op : Op) (d : Loc)
    (h : Intact st d) (hn : NoDamageAt d op) : Intact (step cfg sem st op).2 d := by
  cases op with
  | define o k named loc => exact h
  | wrap w o key dir => simp only [step]; split <;> exact h
  | swap o c => simp only [step]; split <;> exact h
  | call w a =>
    simp only [step]
    cases hl : lookup st w with
    | none => exact h
    | some t =>
      have h1 := intact_checkPrevious cfg st t d h
      simp only [isInCache]
      split
      · exact h1
      · by_cases e : d = t.dir
        · subst e
          unfold Intact at h1 ⊢
          simpa [dirAt, dget_dset_self] using h1
        · unfold Intact at h1 ⊢
          simpa [dirAt, dget_dset_ne e] using h1
  | check w a =>
    simp only [step]
    cases hl : lookup st w with
    | none => exact h
    | some t => exact intact_checkPrevious cfg st t d h
  | clearFn w =>
    simp only [step]
    cases hl : lookup st w with
    | none => exact h
    | some t =>
      by_cases e : d = t.dir
      · subst e; exact .inr ⟨_, code_clearWrite cfg _ t _⟩
      · unfold Intact; rw [dirAt_clearWrite_ne cfg _ t _ e]; exact h
  | clearAll d' =>
    by_cases e : d = d'
    · subst e; exact .inl (by simp [step, dirAt, dget_dset_self])
    · unfold Intact at h ⊢; simpa [step, dirAt, dget_dset_ne e] using h
  | damage d' dm =>
    have e : d ≠ d' := fun e => hn e.symm
    unfold Intact at h ⊢; simpa [step, dirAt, dget_dset_ne e] using h
  | fresh => exact h

theorem intact_exec (cfg : Cfg) (sem : Src → Nat → R) (d : Loc) : ∀ (ops : List Op) (st : State R),
    Intact st d → (∀ op ∈ ops, NoDamageAt d op) → Intact (exec cfg sem st ops) d
  | [], _, h, _ => h
  | op :: ops, st, h, hn =>
    intact_exec cfg sem d ops _ (intact_step cfg sem st op d h (hn op List.mem_cons_self))
      fun o ho => hn o (List.mem_cons_of_mem _ ho)

/-! ## unchanged code keeps its cache, per location -/

/-- All live functions run code with source `k`, and the stored code of directory `d` (if any) is `k`. -/
def AllSrc (k : Src) (d : Loc) (st : State R) : Prop :=
  (∀ o c n, dget o st.live = some (c, n) → c.2 = k) ∧
    ((dirAt st d).code = .missing ∨ (dirAt st d).code = .ok k)

theorem allSrc_init (k : Src) (d : Loc) : AllSrc k d (init : State R) :=
  ⟨fun o c n h => by simp [init, dget] at h, .inl rfl⟩

/-- With the stored code of the wrapper's directory (if any) equal to the current code's source, the
check keeps every entry there and leaves the stored code equal to that source; when it WAS that
source already, the answer is yes and no directory is written to. -/
theorem checkPrevious_keep {cfg : Cfg} (hg : Good cfg) {sem : Src → Nat → R} {st : State R}
    (hi : Inv cfg sem st) {t : Target} (ht : TOK cfg t)
    (hc : (dirAt st t.dir).code = .missing ∨ (dirAt st t.dir).code = .ok t.cur.2) :
    let r := checkPrevious cfg st t
    (dirAt r.2 t.dir).entries = (dirAt st t.dir).entries ∧ (dirAt r.2 t.dir).code = .ok t.cur.2 ∧
      ((dirAt st t.dir).code = .ok t.cur.2 → r.1 = true ∧ r.2.disk = st.disk) := by
  obtain ⟨f1, _⟩ := funcCodeInfo_fixed hg.iu (cur := t.cur) ht.1
  unfold checkPrevious
  split
  · rename_i hs
    have hp := shortcut_post hg hi ht.2 hs
    refine ⟨rfl, ?_, fun _ => ⟨rfl, rfl⟩⟩
    rcases hc with hc | hc
    · exact absurd hc hp.present
    · exact hc
  · simp only [f1]
    rcases hc with hc | hc
    · simp only [hc]
      refine ⟨?_, code_write cfg _ t _, fun h => by cases h⟩
      simp [writeFuncCode, dirAt, dget_dset_self]
    · simp only [hc, if_true]
      exact ⟨rfl, hc, fun _ => ⟨trivial, trivial⟩⟩

/-- A quiet step keeps `AllSrc` and every entry of directory `d`. -/
theorem quiet_step {cfg : Cfg} (hg : Good cfg) {sem : Src → Nat → R} {k : Src} {d : Loc} {st : State R}
    (hi : Inv cfg sem st) (hs : AllSrc k d st) {op : Op} (hq : QuietAt k d op) :
    AllSrc k d (step cfg sem st op).2 ∧
      ∀ a r, dget a (dirAt st d).entries = some r → dget a (dirAt (step cfg sem st op).2 d).entries = some r := by
  cases op with
  | define o k' named loc =>
    simp only [QuietAt] at hq
    subst hq
    refine ⟨⟨fun o' c n h => ?_, hs.2⟩, fun a r h => h⟩
    simp only [step] at h
    rcases dget_dset_cases h with ⟨_, e⟩ | ⟨_, h'⟩
    · cases e; rfl
    · exact hs.1 o' c n h'
  | wrap w o key dir =>
    simp only [step]
    split <;> exact ⟨hs, fun a r h => h⟩
  | swap o c =>
    simp only [QuietAt] at hq
    simp only [step]
    split
    · refine ⟨⟨fun o' c' n h => ?_, hs.2⟩, fun a r h => h⟩
      rcases dget_dset_cases h with ⟨_, e⟩ | ⟨_, h'⟩
      · cases e; exact hq
      · exact hs.1 o' c' n h'
    · exact ⟨hs, fun a r h => h⟩
  | call w a =>
    cases hl : lookup st w with
    | none => simp only [step, hl]; exact ⟨hs, fun a r h => h⟩
    | some t =>
      obtain ⟨_, _, k4⟩ := checkPrevious_spec hg hi (lookup_tok hi hl)
      have hlive : (step cfg sem st (.call w a)).2.live = st.live := by
        simp only [step, hl, isInCache]
        split <;> exact k4
      by_cases e : d = t.dir
      · subst e
        have hk : t.cur.2 = k := hs.1 t.o t.cur t.named (lookup_live hl)
        have hc : (dirAt st t.dir).code = .missing ∨ (dirAt st t.dir).code = .ok t.cur.2 := by
          rw [hk]; exact hs.2
        obtain ⟨k1, k2, k3⟩ := checkPrevious_keep hg hi (lookup_tok hi hl) hc
        simp only [step, hl, isInCache] at hlive ⊢
        cases hr : (if (checkPrevious cfg st t).1 = true then
            dget a (dirAt (checkPrevious cfg st t).2 t.dir).entries else none) with
        | some v =>
          simp only [hr] at hlive ⊢
          exact ⟨⟨fun o' c n h => hs.1 o' c n (hlive ▸ h), .inr (by rw [k2, hk])⟩,
            fun a' r h => by rw [k1]; exact h⟩
        | none =>
          simp only [hr] at hlive ⊢
          refine ⟨⟨fun o' c n h => hs.1 o' c n (hlive ▸ h), .inr ?_⟩, fun a' r h => ?_⟩
          · simp only [dirAt, dget_dset_self, Option.getD_some]
            have := k2; simp only [dirAt] at this; rw [this, hk]
          · simp only [dirAt, dget_dset_self, Option.getD_some]
            have k1' := k1; simp only [dirAt] at k1'; rw [k1']
            by_cases e : a' = a
            · subst e
              -- the entry was there: the stored code was `k` (not missing), so the check said yes and
              -- the lookup cannot have missed
              exfalso
              have hcode : (dirAt st t.dir).code = .ok t.cur.2 := by
                rcases hc with hc | hc
                · have := ((hi.dirs t.dir).missing hc).1
                  simp only [cell] at this
                  rw [this] at h; simp [dget] at h
                · exact hc
              simp [(k3 hcode).1, k1, h] at hr
            · rw [dget_dset_ne e]; exact h
      · have hf := step_frame cfg sem st (.call w a) d (by simp [opDir, hl]; exact fun h => e h.symm)
        refine ⟨⟨fun o' c n h => hs.1 o' c n (hlive ▸ h), ?_⟩, fun a' r h => ?_⟩
        · rw [hf]; exact hs.2
        · rw [hf]; exact h
  | check w a =>
    cases hl : lookup st w with
    | none => simp only [step, hl]; exact ⟨hs, fun a r h => h⟩
    | some t =>
      obtain ⟨_, _, k4⟩ := checkPrevious_spec hg hi (lookup_tok hi hl)
      have hlive : (step cfg sem st (.check w a)).2.live = st.live := by
        simp only [step, hl, isInCache]; exact k4
      by_cases e : d = t.dir
      · subst e
        have hk : t.cur.2 = k := hs.1 t.o t.cur t.named (lookup_live hl)
        have hc : (dirAt st t.dir).code = .missing ∨ (dirAt st t.dir).code = .ok t.cur.2 := by
          rw [hk]; exact hs.2
        obtain ⟨k1, k2, _⟩ := checkPrevious_keep hg hi (lookup_tok hi hl) hc
        simp only [step, hl, isInCache] at hlive ⊢
        exact ⟨⟨fun o' c n h => hs.1 o' c n (hlive ▸ h), .inr (by rw [k2, hk])⟩,
          fun a' r h => by rw [k1]; exact h⟩
      · have hf := step_frame cfg sem st (.check w a) d (by simp [opDir, hl]; exact fun h => e h.symm)
        refine ⟨⟨fun o' c n h => hs.1 o' c n (hlive ▸ h), ?_⟩, fun a' r h => ?_⟩
        · rw [hf]; exact hs.2
        · rw [hf]; exact h
  | clearFn w => simp [QuietAt] at hq
  | clearAll d' =>
    simp only [QuietAt] at hq
    have hf := step_frame cfg sem st (.clearAll d') d (by simp [opDir]; exact hq)
    exact ⟨⟨hs.1, by rw [hf]; exact hs.2⟩, fun a r h => by rw [hf]; exact h⟩
  | damage d' dm =>
    simp only [QuietAt] at hq
    have hf := step_frame cfg sem st (.damage d' dm) d (by simp [opDir]; exact hq.1)
    exact ⟨⟨hs.1, by rw [hf]; exact hs.2⟩, fun a r h => by rw [hf]; exact h⟩
  | fresh =>
    exact ⟨⟨fun o c n h => by simp [step, dget] at h, hs.2⟩, fun a r h => h⟩

theorem quiet_exec {sem : Src → Nat → R} {k : Src} {d : Loc} :
    ∀ (ops : List Op) (st : State R), Inv Cfg.fixed sem st →
    AllSrc k d st → (∀ op ∈ ops, QuietAt k d op) →
    AllSrc k d (exec Cfg.fixed sem st ops) ∧
      ∀ a r, dget a (dirAt st d).entries = some r →
        dget a (dirAt (exec Cfg.fixed sem st ops) d).entries = some r
  | [], _, _, hs, _ => ⟨hs, fun _ _ h => h⟩
  | op :: ops, st, hi, hs, hq => by
    obtain ⟨s1, k1⟩ := quiet_step good_fixed hi hs (hq op List.mem_cons_self)
    obtain ⟨s2, k2⟩ := quiet_exec ops _
      (step_spec good_fixed hi op (quiet_noDelete (hq op List.mem_cons_self))
        (keyOK_of_canonical (quiet_canonical (hq op List.mem_cons_self)))).1 s1
      (fun o ho => hq o (List.mem_cons_of_mem _ ho))
    exact ⟨s2, fun a r h => k2 a r (k1 a r h)⟩

/-- A hit: the stored code of the wrapper's directory is the current code's source and the entry is
there ⇒ the call is served from the cache; no directory is written to. -/
theorem call_hit {cfg : Cfg} (hg : Good cfg) {sem : Src → Nat → R} {st : State R} (hi : Inv cfg sem st)
    {w : Nat} {t : Target} {a : Nat} {r : R}
    (hl : lookup st w = some t) (hc : (dirAt st t.dir).code = .ok t.cur.2)
    (he : dget a (dirAt st t.dir).entries = some r) :
    (step cfg sem st (.call w a)).1 = .value r false ∧
      (step cfg sem st (.call w a)).2.disk = st.disk := by
  obtain ⟨k1, _, k3⟩ := checkPrevious_keep hg hi (lookup_tok hi hl) (.inr hc)
  have e : step cfg sem st (.call w a) = (.value r false, (checkPrevious cfg st t).2) := by
    simp only [step, hl, isInCache, (k3 hc).1, k1, he, if_true]
  rw [e]
  exact ⟨rfl, (k3 hc).2⟩

end JoblibModel.FuncCode
