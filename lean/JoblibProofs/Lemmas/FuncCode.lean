import JoblibModel.FuncCode
import JoblibProofs.Lemmas.FilterArgs
/-! Helper lemmas and specification predicates for C12 (`JoblibModel.FuncCode`). Core Lean only. -/
namespace JoblibModel.FuncCode
open JoblibModel.FilterArgs (dget dset dget_dset_self dget_dset_ne)

variable {R : Type}

/-! ## specification predicates -/

/-- What the property demands of one step: a call of a live function object whose current source
is `k` returns the value the code `k` computes on that argument (whether served from the cache or
executed). -/
def Correct (sem : Src → Nat → R) (st : State R) : Op → Out R → Prop
  | .call o a, out =>
    match dget o st.live with
    | some (k, _) => out = .value (sem k a) false ∨ out = .value (sem k a) true
    | none => out = .notLive
  | _, _ => True

/-- Every step of a history is `Correct`. -/
def AllCorrect (ver : Version) (sem : Src → Nat → R) : State R → List Op → Prop
  | _, [] => True
  | st, op :: ops =>
    Correct sem st op (step ver sem st op).1 ∧ AllCorrect ver sem (step ver sem st op).2 ops

/-- An operation that does not clear anything and mentions no other source text than `k`. -/
def Quiet (k : Src) : Op → Prop
  | .define _ k' _ => k' = k
  | .swap _ k' => k' = k
  | .call _ _ => True
  | .check _ _ => True
  | .fresh => True
  | .clearFn _ => False
  | .clearAll => False

instance (k : Src) (op : Op) : Decidable (Quiet k op) := by
  cases op <;> simp only [Quiet] <;> exact inferInstance

instance [DecidableEq R] (sem : Src → Nat → R) (st : State R) (op : Op) (out : Out R) :
    Decidable (Correct sem st op out) := by
  cases op <;> simp only [Correct] <;> try exact inferInstance
  split <;> exact inferInstance

instance instDecidableAllCorrect [DecidableEq R] (ver : Version) (sem : Src → Nat → R) :
    ∀ (st : State R) (ops : List Op), Decidable (AllCorrect ver sem st ops)
  | _, [] => isTrue trivial
  | st, op :: ops =>
    have := instDecidableAllCorrect ver sem (step ver sem st op).2 ops
    show Decidable (_ ∧ _) from inferInstance

/-! ## the invariant of the repaired code -/

/-- * no `func_code.py` ⇒ no entry in the function's directory;
* every entry holds the value the STORED source computes;
* the recorded writer's code is the stored code. -/
structure Inv (sem : Src → Nat → R) (st : State R) : Prop where
  empty : st.code = none → st.entries = []
  vals : ∀ c, st.code = some c → ∀ a r, dget a st.entries = some r → r = sem c a
  writer : ∀ o s, st.writer = some (o, s) → st.code = some s

theorem inv_init (sem : Src → Nat → R) : Inv sem (init : State R) :=
  ⟨fun _ => rfl, fun c h => by simp [init] at h, fun o s h => by simp [init] at h⟩

theorem inv_write {sem : Src → Nat → R} {st : State R} (he : st.entries = []) (o : Obj) (src : Src)
    (named : Bool) : Inv sem (writeFuncCode st o src named) := by
  refine ⟨fun h => by simp [writeFuncCode] at h, fun c _ a r h => ?_, fun o' s h => ?_⟩
  · simp [writeFuncCode, he, dget] at h
  · cases named <;> simp [writeFuncCode] at h ⊢
    exact h.2

theorem inv_clearFn {sem : Src → Nat → R} (st : State R) (o : Obj) (src : Src) (named : Bool) :
    Inv sem (clearFn st o src named) :=
  inv_write (st := { st with entries := [] }) rfl o src named

/-- The repaired shortcut is sound: it answers yes only when the stored code is this function's. -/
theorem shortcut_sound {sem : Src → Nat → R} {st : State R} (hi : Inv sem st) {o : Obj} {src : Src}
    (h : shortcut .fixed st o src = true) : st.code = some src := by
  unfold shortcut at h
  split at h
  · simp at h
    exact hi.writer o src h.2
  · simp at h

/-- `_check_previous_func_code` (repaired): afterwards the stored code is the function's; a `True`
answer leaves the state alone, a `False` answer leaves the directory without entries. -/
theorem checkPrevious_spec {sem : Src → Nat → R} {st : State R} (hi : Inv sem st) (o : Obj)
    (src : Src) (named : Bool) :
    let r := checkPrevious .fixed st o src named
    Inv sem r.2 ∧ r.2.code = some src ∧ r.2.live = st.live ∧
      (r.1 = true → r.2 = st) ∧ (r.1 = false → r.2.entries = []) := by
  unfold checkPrevious
  split
  · rename_i hs
    exact ⟨hi, shortcut_sound hi hs, rfl, fun _ => rfl, fun h => by simp at h⟩
  · split
    · rename_i hc
      refine ⟨inv_write (hi.empty hc) _ _ _, by simp [writeFuncCode], by simp [writeFuncCode],
        fun h => by simp at h, fun _ => by simp [writeFuncCode, hi.empty hc]⟩
    · rename_i old hc
      split
      · rename_i he
        exact ⟨hi, by rw [hc, he], rfl, fun _ => rfl, fun h => by simp at h⟩
      · exact ⟨inv_clearFn _ _ _ _, by simp [clearFn, writeFuncCode], by simp [clearFn, writeFuncCode],
          fun h => by simp at h, fun _ => by simp [clearFn, writeFuncCode]⟩

theorem isInCache_spec {sem : Src → Nat → R} {st : State R} (hi : Inv sem st) (o : Obj)
    (src : Src) (named : Bool) (a : Nat) :
    let r := isInCache .fixed st o src named a
    Inv sem r.2 ∧ r.2.code = some src ∧ r.2.live = st.live ∧ (∀ v, r.1 = some v → v = sem src a) := by
  obtain ⟨h1, h2, h3, _, _⟩ := checkPrevious_spec hi o src named
  refine ⟨h1, h2, h3, fun v hv => ?_⟩
  unfold isInCache at hv
  simp only at hv
  split at hv
  · exact h1.vals src h2 a v hv
  · cases hv

theorem inv_store {sem : Src → Nat → R} {st : State R} (hi : Inv sem st) {src : Src}
    (hc : st.code = some src) (a : Nat) :
    Inv sem { st with entries := dset a (sem src a) st.entries } := by
  refine ⟨fun h => by simp [hc] at h, fun c hc' a' r h => ?_, fun o s h => hi.writer o s h⟩
  have hcc : c = src := by
    have : st.code = some c := hc'
    rw [hc] at this; cases this; rfl
  subst hcc
  by_cases e : a' = a
  · subst e
    rw [show ({ st with entries := dset a' (sem c a') st.entries } : State R).entries
        = dset a' (sem c a') st.entries from rfl, dget_dset_self] at h
    cases h; rfl
  · rw [show ({ st with entries := dset a (sem c a) st.entries } : State R).entries
        = dset a (sem c a) st.entries from rfl, dget_dset_ne e] at h
    exact hi.vals c hc a' r h

/-- One step of the repaired code keeps the invariant and is `Correct`. -/
theorem step_spec {sem : Src → Nat → R} {st : State R} (hi : Inv sem st) (op : Op) :
    Inv sem (step .fixed sem st op).2 ∧ Correct sem st op (step .fixed sem st op).1 := by
  cases op with
  | define o k named => exact ⟨⟨hi.empty, hi.vals, hi.writer⟩, trivial⟩
  | swap o k =>
    simp only [step]
    split
    · exact ⟨⟨hi.empty, hi.vals, hi.writer⟩, trivial⟩
    · exact ⟨hi, trivial⟩
  | call o a =>
    simp only [step, Correct]
    cases hl : dget o st.live with
    | none => exact ⟨hi, rfl⟩
    | some p =>
      obtain ⟨src, named⟩ := p
      obtain ⟨h1, h2, _, h4⟩ := isInCache_spec hi o src named a
      simp only
      cases hr : (isInCache .fixed st o src named a).1 with
      | some v =>
        simp only
        exact ⟨h1, .inl (by rw [h4 v hr])⟩
      | none =>
        simp only
        exact ⟨inv_store h1 h2 a, by simp⟩
  | check o a =>
    simp only [step]
    cases hl : dget o st.live with
    | none => exact ⟨hi, trivial⟩
    | some p =>
      obtain ⟨src, named⟩ := p
      exact ⟨(isInCache_spec hi o src named a).1, trivial⟩
  | clearFn o =>
    simp only [step]
    cases hl : dget o st.live with
    | none => exact ⟨hi, trivial⟩
    | some p => exact ⟨inv_clearFn _ _ _ _, trivial⟩
  | clearAll =>
    exact ⟨⟨fun _ => rfl, fun c h => by simp [step] at h, fun o s h => by simp [step] at h⟩, trivial⟩
  | fresh =>
    exact ⟨⟨hi.empty, hi.vals, fun o s h => by simp [step] at h⟩, trivial⟩

theorem allCorrect_of_inv {sem : Src → Nat → R} : ∀ (ops : List Op) (st : State R), Inv sem st →
    AllCorrect .fixed sem st ops
  | [], _, _ => trivial
  | op :: ops, _, hi =>
    ⟨(step_spec hi op).2, allCorrect_of_inv ops _ (step_spec hi op).1⟩

theorem inv_exec {sem : Src → Nat → R} : ∀ (ops : List Op) (st : State R), Inv sem st →
    Inv sem (exec .fixed sem st ops)
  | [], _, hi => hi
  | op :: ops, _, hi => inv_exec ops _ (step_spec hi op).1

theorem exec_append (ver : Version) (sem : Src → Nat → R) : ∀ (a b : List Op) (st : State R),
    exec ver sem st (a ++ b) = exec ver sem (exec ver sem st a) b
  | [], _, _ => rfl
  | _ :: a, b, _ => exec_append ver sem a b _

/-! ## unchanged code keeps its cache -/

/-- A hit: the stored code is the function's own and the entry is there ⇒ the call is served from
the cache and nothing changes. -/
theorem call_hit {sem : Src → Nat → R} {st : State R} {o : Obj} {k : Src}
    {named : Bool} {a : Nat} {r : R} (hl : dget o st.live = some (k, named))
    (hc : st.code = some k) (he : dget a st.entries = some r) :
    step .fixed sem st (.call o a) = (.value r false, st) := by
  have hcp : checkPrevious .fixed st o k named = (true, st) := by
    unfold checkPrevious
    split
    · rfl
    · simp [hc]
  simp [step, hl, isInCache, hcp, he]

/-- All live functions have source `k`, and the stored code (if any) is `k`. -/
def AllSrc (k : Src) (st : State R) : Prop :=
  (∀ o s n, dget o st.live = some (s, n) → s = k) ∧ (∀ c, st.code = some c → c = k)

theorem allSrc_init (k : Src) : AllSrc k (init : State R) :=
  ⟨fun o s n h => by simp [init, dget] at h, fun c h => by simp [init] at h⟩

theorem dget_dset_cases {κ ν : Type} [DecidableEq κ] {k k' : κ} {v w : ν} {d : List (κ × ν)}
    (h : dget k' (dset k v d) = some w) : (k' = k ∧ w = v) ∨ (k' ≠ k ∧ dget k' d = some w) := by
  by_cases e : k' = k
  · subst e; rw [dget_dset_self] at h; cases h; exact .inl ⟨rfl, rfl⟩
  · rw [dget_dset_ne e] at h; exact .inr ⟨e, h⟩

/-- A quiet step keeps `AllSrc`, the invariant, and every entry. -/
theorem quiet_step {sem : Src → Nat → R} {k : Src} {st : State R} (hi : Inv sem st)
    (hs : AllSrc k st) {op : Op} (hq : Quiet k op) :
    AllSrc k (step .fixed sem st op).2 ∧
      ∀ a r, dget a st.entries = some r → dget a (step .fixed sem st op).2.entries = some r := by
  cases op with
  | define o k' named =>
    simp only [Quiet] at hq
    subst hq
    refine ⟨⟨fun o' s n h => ?_, hs.2⟩, fun a r h => h⟩
    simp only [step] at h
    rcases dget_dset_cases h with ⟨_, e⟩ | ⟨_, h'⟩
    · cases e; rfl
    · exact hs.1 o' s n h'
  | swap o k' =>
    simp only [Quiet] at hq
    subst hq
    simp only [step]
    split
    · refine ⟨⟨fun o' s n h => ?_, hs.2⟩, fun a r h => h⟩
      rcases dget_dset_cases h with ⟨_, e⟩ | ⟨_, h'⟩
      · cases e; rfl
      · exact hs.1 o' s n h'
    · exact ⟨hs, fun a r h => h⟩
  | call o a =>
    simp only [step]
    cases hl : dget o st.live with
    | none => exact ⟨hs, fun a r h => h⟩
    | some p =>
      obtain ⟨src, named⟩ := p
      have hsrc : src = k := hs.1 o src named hl
      subst hsrc
      obtain ⟨h1, h2, h3, h4, h5⟩ := checkPrevious_spec hi o src named
      have keep : ∀ a' r, dget a' st.entries = some r →
          dget a' (checkPrevious .fixed st o src named).2.entries = some r := by
        intro a' r h
        cases hb : (checkPrevious .fixed st o src named).1 with
        | true => rw [h4 hb]; exact h
        | false =>
          -- a `False` answer means the stored code was absent or different: both impossible with
          -- an entry present and `AllSrc`
          exfalso
          unfold checkPrevious at hb
          split at hb
          · simp at hb
          · split at hb
            · rename_i hc
              rw [hi.empty hc] at h; simp [dget] at h
            · rename_i old hc
              split at hb
              · simp at hb
              · rename_i hne
                exact hne (hs.2 old hc)
      have hall : AllSrc src (checkPrevious .fixed st o src named).2 :=
        ⟨fun o' s n h => hs.1 o' s n (h3 ▸ h), fun c h => by rw [h2] at h; cases h; rfl⟩
      simp only [isInCache]
      cases hr : (if (checkPrevious .fixed st o src named).1 = true then
          dget a (checkPrevious .fixed st o src named).2.entries else none) with
      | some v => simp only; exact ⟨hall, keep⟩
      | none =>
        simp only
        refine ⟨hall, fun a' r h => ?_⟩
        have h' := keep a' r h
        by_cases e : a' = a
        · subst e
          -- the entry was there, so the lookup cannot have missed
          exfalso
          cases hb : (checkPrevious .fixed st o src named).1 with
          | true => simp [hb, h'] at hr
          | false => rw [h5 hb] at h'; simp [dget] at h'
        · show dget a' (dset a _ _) = some r
          rw [dget_dset_ne e]; exact h'
  | check o a =>
    simp only [step]
    cases hl : dget o st.live with
    | none => exact ⟨hs, fun a r h => h⟩
    | some p =>
      obtain ⟨src, named⟩ := p
      have hsrc : src = k := hs.1 o src named hl
      subst hsrc
      obtain ⟨h1, h2, h3, h4, h5⟩ := checkPrevious_spec hi o src named
      refine ⟨⟨fun o' s n h => hs.1 o' s n (h3 ▸ h), fun c h => by
        simp only [isInCache] at h; rw [h2] at h; cases h; rfl⟩, fun a' r h => ?_⟩
      simp only [isInCache]
      cases hb : (checkPrevious .fixed st o src named).1 with
      | true => rw [h4 hb]; exact h
      | false =>
        exfalso
        unfold checkPrevious at hb
        split at hb
        · simp at hb
        · split at hb
          · rename_i hc
            rw [hi.empty hc] at h; simp [dget] at h
          · rename_i old hc
            split at hb
            · simp at hb
            · rename_i hne
              exact hne (hs.2 old hc)
  | clearFn o => simp [Quiet] at hq
  | clearAll => simp [Quiet] at hq
  | fresh =>
    exact ⟨⟨fun o s n h => by simp [step, dget] at h, hs.2⟩, fun a r h => h⟩

theorem quiet_exec {sem : Src → Nat → R} {k : Src} : ∀ (ops : List Op) (st : State R), Inv sem st →
    AllSrc k st → (∀ op ∈ ops, Quiet k op) →
    AllSrc k (exec .fixed sem st ops) ∧
      ∀ a r, dget a st.entries = some r → dget a (exec .fixed sem st ops).entries = some r
  | [], _, _, hs, _ => ⟨hs, fun _ _ h => h⟩
  | op :: ops, st, hi, hs, hq => by
    obtain ⟨s1, k1⟩ := quiet_step hi hs (hq op List.mem_cons_self)
    obtain ⟨s2, k2⟩ := quiet_exec ops _ (step_spec hi op).1 s1
      (fun o ho => hq o (List.mem_cons_of_mem _ ho))
    exact ⟨s2, fun a r h => k2 a r (k1 a r h)⟩

end JoblibModel.FuncCode
