import JoblibModel.FuncCode
import JoblibProofs.Lemmas.FilterArgs
/-! Helper lemmas and specification predicates for C12 (`JoblibModel.FuncCode`). Core Lean only. -/
namespace JoblibModel.FuncCode
open JoblibModel.FilterArgs (dget dset dget_dset_self dget_dset_ne)

variable {R : Type}

/-! ## specification predicates -/

/-- What the property demands of one step: a call through a live wrapper whose function's CURRENT
code object has source `k` returns the value the code `k` computes on that argument (whether
served from the cache or executed). -/
def Correct (sem : Src → Nat → R) (st : State R) : Op → Out R → Prop
  | .call w a, out =>
    match lookup st w with
    | some (_, cur, _, _) => out = .value (sem cur.2 a) false ∨ out = .value (sem cur.2 a) true
    | none => out = .notLive
  | _, _ => True

/-- Every step of a history is `Correct`. -/
def AllCorrect (cfg : Cfg) (sem : Src → Nat → R) : State R → List Op → Prop
  | _, [] => True
  | st, op :: ops =>
    Correct sem st op (step cfg sem st op).1 ∧ AllCorrect cfg sem (step cfg sem st op).2 ops

/-- The step does not DELETE `func_code.py` (truncations are allowed). -/
def NoDelete : Op → Prop
  | .damage .delete => False
  | _ => True

/-- An operation that does not clear or damage anything and mentions no other source text than `k`. -/
def Quiet (k : Src) : Op → Prop
  | .define _ k' _ => k' = k
  | .wrap _ _ => True
  | .swap _ c => c.2 = k
  | .call _ _ => True
  | .check _ _ => True
  | .fresh => True
  | .clearFn _ => False
  | .clearAll => False
  | .damage _ => False

instance (op : Op) : Decidable (NoDelete op) := by
  cases op <;> simp only [NoDelete] <;> try exact inferInstance
  rename_i d; cases d <;> exact inferInstance

instance (k : Src) (op : Op) : Decidable (Quiet k op) := by
  cases op <;> simp only [Quiet] <;> exact inferInstance

instance [DecidableEq R] (sem : Src → Nat → R) (st : State R) (op : Op) (out : Out R) :
    Decidable (Correct sem st op out) := by
  cases op <;> simp only [Correct] <;> try exact inferInstance
  split <;> exact inferInstance

instance instDecidableAllCorrect [DecidableEq R] (cfg : Cfg) (sem : Src → Nat → R) :
    ∀ (st : State R) (ops : List Op), Decidable (AllCorrect cfg sem st ops)
  | _, [] => isTrue trivial
  | st, op :: ops =>
    have := instDecidableAllCorrect cfg sem (step cfg sem st op).2 ops
    show Decidable (_ ∧ _) from inferInstance

/-! ## the invariant of the repaired code -/

/-- A wrapper's cached source belongs to the code object recorded with it. -/
def InfoOK (ic : InfoCache) : Prop :=
  (ic.1 = none → ic.2 = none) ∧ ∀ c s, ic.1 = some c → ic.2 = some s → s = c.2

/-- * no `func_code.py` ⇒ no entry in the function's directory, no recorded writer;
* every entry holds the value the STORED source computes, and the value the recorded writer's code
  computes; the two agree;
* every wrapper's cached source is the source of the code object recorded with it. -/
structure Inv (sem : Src → Nat → R) (st : State R) : Prop where
  missing : st.code = .missing → st.entries = [] ∧ st.writer = none
  stored : ∀ s, st.code = .ok s → ∀ a r, dget a st.entries = some r → r = sem s a
  writer : ∀ o c, st.writer = some (o, c) → ∀ a r, dget a st.entries = some r → r = sem c.2 a
  agree : ∀ s o c, st.code = .ok s → st.writer = some (o, c) → c.2 = s
  wraps : ∀ w o ic, dget w st.wraps = some (o, ic) → InfoOK ic

theorem inv_init (sem : Src → Nat → R) : Inv sem (init : State R) :=
  ⟨fun _ => ⟨rfl, rfl⟩, fun s h => by simp [init] at h, fun o c h => by simp [init] at h,
    fun s o c h => by simp [init] at h, fun w o ic h => by simp [init, dget] at h⟩

theorem infoOK_none : InfoOK (none, none) := ⟨fun _ => rfl, fun c s h => by cases h⟩

/-- The repaired `func_code_info` returns the source of the CURRENT code object. -/
theorem funcCodeInfo_fixed {cur : CodeId} {ic : InfoCache} (h : InfoOK ic) :
    (funcCodeInfo Cfg.fixed cur ic).1 = cur.2 ∧ InfoOK (funcCodeInfo Cfg.fixed cur ic).2 := by
  obtain ⟨i1, i2⟩ := ic
  obtain ⟨h1, h2⟩ := h
  simp only at h1 h2
  cases i1 with
  | none =>
    have : i2 = none := h1 rfl
    subst this
    simp [funcCodeInfo, InfoOK]
  | some c0 =>
    by_cases e : c0 = cur
    · subst e
      cases i2 with
      | none => simp [funcCodeInfo, InfoOK]
      | some s =>
        have := h2 c0 s rfl rfl
        subst this
        simp [funcCodeInfo, InfoOK]
    · simp [funcCodeInfo, e, Cfg.fixed, InfoOK]

theorem wraps_dset {st : State R} (hw : ∀ w o ic, dget w st.wraps = some (o, ic) → InfoOK ic)
    (w : Nat) (o : Obj) {ic : InfoCache} (hic : InfoOK ic) :
    ∀ w' o' ic', dget w' (dset w (o, ic) st.wraps) = some (o', ic') → InfoOK ic' := by
  intro w' o' ic' h
  by_cases e : w' = w
  · subst e; rw [dget_dset_self] at h; cases h; exact hic
  · rw [dget_dset_ne e] at h; exact hw w' o' ic' h

/-- After the code check the directory belongs to the current code object's source. -/
structure Post (sem : Src → Nat → R) (st : State R) (cur : CodeId) : Prop where
  vals : ∀ a r, dget a st.entries = some r → r = sem cur.2 a
  code : ∀ s, st.code = .ok s → s = cur.2
  wr : ∀ o c, st.writer = some (o, c) → c.2 = cur.2
  present : st.code ≠ .missing

theorem inv_write {sem : Src → Nat → R} {st : State R} (he : st.entries = [])
    (hw : ∀ w o ic, dget w st.wraps = some (o, ic) → InfoOK ic) (o : Obj) (cur : CodeId) (named : Bool) :
    Inv sem (writeFuncCode st o cur cur.2 named) ∧ Post sem (writeFuncCode st o cur cur.2 named) cur := by
  refine ⟨⟨fun h => by simp [writeFuncCode] at h, fun s _ a r h => ?_, fun o' c _ a r h => ?_,
    fun s o' c h1 h2 => ?_, hw⟩, ⟨fun a r h => ?_, fun s h => ?_, fun o' c h => ?_, by simp [writeFuncCode]⟩⟩
  · simp [writeFuncCode, he, dget] at h
  · simp [writeFuncCode, he, dget] at h
  · cases named <;> simp [writeFuncCode] at h1 h2
    obtain ⟨_, rfl⟩ := h2; exact h1
  · simp [writeFuncCode, he, dget] at h
  · simp [writeFuncCode] at h; exact h.symm
  · cases named <;> simp [writeFuncCode] at h
    obtain ⟨_, rfl⟩ := h; rfl

/-- The repaired shortcut is sound: the directory belongs to this code object. -/
theorem shortcut_post {sem : Src → Nat → R} {st : State R} (hi : Inv sem st) {o : Obj} {cur : CodeId}
    (h : shortcut Cfg.fixed st o cur = true) : Post sem st cur := by
  unfold shortcut at h
  split at h
  · simp [Cfg.fixed] at h
    obtain ⟨_, hw⟩ := h
    refine ⟨hi.writer o cur hw, fun s hs => (hi.agree s o cur hs hw).symm, fun o' c hc => ?_, fun hm => ?_⟩
    · rw [hw] at hc; cases hc; rfl
    · have := (hi.missing hm).2; rw [hw] at this; cases this
  · simp at h

/-- `_check_previous_func_code` (repaired): the invariant is kept, the live functions are
untouched, and afterwards the directory belongs to the current code object's source. -/
theorem checkPrevious_spec {sem : Src → Nat → R} {st : State R} (hi : Inv sem st) (hn : st.code = .missing → st.entries = [])
    (w : Nat) (o : Obj) (cur : CodeId) (named : Bool) {ic : InfoCache} (hic : InfoOK ic) :
    let r := checkPrevious Cfg.fixed st w o cur named ic
    Inv sem r.2 ∧ Post sem r.2 cur ∧ r.2.live = st.live := by
  obtain ⟨f1, f2⟩ := funcCodeInfo_fixed (cur := cur) hic
  have hw' := wraps_dset hi.wraps w o f2
  unfold checkPrevious
  split
  · rename_i hs
    exact ⟨hi, shortcut_post hi hs, rfl⟩
  · simp only [f1]
    cases hc : st.code with
    | missing =>
      simp only
      obtain ⟨a, b⟩ := inv_write (sem := sem)
        (st := { st with wraps := dset w (o, (funcCodeInfo Cfg.fixed cur ic).2) st.wraps })
        (hn hc) hw' o cur named
      exact ⟨a, b, rfl⟩
    | unreadable =>
      simp only [clearWrite]
      obtain ⟨a, b⟩ := inv_write (sem := sem)
        (st := { st with wraps := dset w (o, (funcCodeInfo Cfg.fixed cur ic).2) st.wraps, entries := [] })
        rfl hw' o cur named
      exact ⟨a, b, rfl⟩
    | other =>
      simp only [clearWrite]
      obtain ⟨a, b⟩ := inv_write (sem := sem)
        (st := { st with wraps := dset w (o, (funcCodeInfo Cfg.fixed cur ic).2) st.wraps, entries := [] })
        rfl hw' o cur named
      exact ⟨a, b, rfl⟩
    | ok old =>
      simp only
      split
      · rename_i he
        subst he
        refine ⟨⟨fun h => by simp at h, fun s hs => ?_, hi.writer, fun s o' c hs => ?_, hw'⟩,
          ⟨hi.stored cur.2 hc, fun s hs => ?_, fun o' c hw => hi.agree cur.2 o' c hc hw, fun h => by simp at h⟩, rfl⟩
        · simp only [CodeFile.ok.injEq] at hs; subst hs; exact hi.stored cur.2 hc
        · simp only [CodeFile.ok.injEq] at hs; subst hs; exact hi.agree cur.2 o' c hc
        · simp only [CodeFile.ok.injEq] at hs; exact hs.symm
      · simp only [clearWrite]
        obtain ⟨a, b⟩ := inv_write (sem := sem)
          (st := { st with wraps := dset w (o, (funcCodeInfo Cfg.fixed cur ic).2) st.wraps, entries := [] })
          rfl hw' o cur named
        exact ⟨a, b, rfl⟩

theorem inv_store {sem : Src → Nat → R} {st : State R} (hi : Inv sem st) {cur : CodeId}
    (hp : Post sem st cur) (a : Nat) :
    Inv sem { st with entries := dset a (sem cur.2 a) st.entries } := by
  have key : ∀ a' r, dget a' (dset a (sem cur.2 a) st.entries) = some r → r = sem cur.2 a' := by
    intro a' r h
    by_cases e : a' = a
    · subst e; rw [dget_dset_self] at h; cases h; rfl
    · rw [dget_dset_ne e] at h; exact hp.vals a' r h
  refine ⟨fun h => absurd h hp.present, fun s hs a' r h => ?_, fun o c hw a' r h => ?_, hi.agree, hi.wraps⟩
  · rw [hp.code s hs]; exact key a' r h
  · rw [hp.wr o c hw]; exact key a' r h

theorem lookup_infoOK {sem : Src → Nat → R} {st : State R} (hi : Inv sem st) {w : Nat} {o : Obj}
    {cur : CodeId} {named : Bool} {ic : InfoCache} (h : lookup st w = some (o, cur, named, ic)) :
    InfoOK ic := by
  unfold lookup at h
  split at h
  · cases h
  · rename_i o' ic' hw
    split at h
    · cases h
    · cases h; exact hi.wraps w _ _ hw

/-- One step of the repaired code (other than deleting `func_code.py`) keeps the invariant and is
`Correct`. -/
theorem step_spec {sem : Src → Nat → R} {st : State R} (hi : Inv sem st) (op : Op) (hnd : NoDelete op) :
    Inv sem (step Cfg.fixed sem st op).2 ∧ Correct sem st op (step Cfg.fixed sem st op).1 := by
  have hn : st.code = .missing → st.entries = [] := fun h => (hi.missing h).1
  cases op with
  | define o k named =>
    exact ⟨⟨hi.missing, hi.stored, hi.writer, hi.agree, wraps_dset hi.wraps o o infoOK_none⟩, trivial⟩
  | wrap w o =>
    simp only [step]
    split
    · exact ⟨⟨hi.missing, hi.stored, hi.writer, hi.agree, wraps_dset hi.wraps w o infoOK_none⟩, trivial⟩
    · exact ⟨hi, trivial⟩
  | swap o c =>
    simp only [step]
    split
    · exact ⟨⟨hi.missing, hi.stored, hi.writer, hi.agree, hi.wraps⟩, trivial⟩
    · exact ⟨hi, trivial⟩
  | call w a =>
    simp only [step, Correct]
    cases hl : lookup st w with
    | none => exact ⟨hi, rfl⟩
    | some p =>
      obtain ⟨o, cur, named, ic⟩ := p
      obtain ⟨h1, h2, _⟩ := checkPrevious_spec hi hn w o cur named (lookup_infoOK hi hl)
      simp only [isInCache]
      cases hr : (if (checkPrevious Cfg.fixed st w o cur named ic).1 = true then
          dget a (checkPrevious Cfg.fixed st w o cur named ic).2.entries else none) with
      | some v =>
        simp only
        refine ⟨h1, .inl ?_⟩
        split at hr
        · rw [h2.vals a v hr]
        · cases hr
      | none =>
        simp only
        exact ⟨inv_store h1 h2 a, by simp⟩
  | check w a =>
    simp only [step]
    cases hl : lookup st w with
    | none => exact ⟨hi, trivial⟩
    | some p =>
      obtain ⟨o, cur, named, ic⟩ := p
      exact ⟨(checkPrevious_spec hi hn w o cur named (lookup_infoOK hi hl)).1, trivial⟩
  | clearFn w =>
    simp only [step]
    cases hl : lookup st w with
    | none => exact ⟨hi, trivial⟩
    | some p =>
      obtain ⟨o, cur, named, ic⟩ := p
      obtain ⟨f1, f2⟩ := funcCodeInfo_fixed (cur := cur) (lookup_infoOK hi hl)
      simp only [f1, clearWrite]
      exact ⟨(inv_write (sem := sem)
        (st := { st with wraps := dset w (o, (funcCodeInfo Cfg.fixed cur ic).2) st.wraps, entries := [] })
        rfl (wraps_dset hi.wraps w o f2) o cur named).1, trivial⟩
  | clearAll =>
    exact ⟨⟨fun _ => ⟨rfl, rfl⟩, fun s h => by simp [step] at h, fun o c h => by simp [step] at h,
      fun s o c h => by simp [step] at h, hi.wraps⟩, trivial⟩
  | damage d =>
    cases d with
    | delete => exact absurd hnd (by simp [NoDelete])
    | unreadable =>
      cases hc : st.code <;> simp only [step, applyDamage, hc]
      · exact ⟨⟨fun _ => hi.missing hc, (fun s h => by cases h), hi.writer, (fun s o c h => by cases h), hi.wraps⟩, trivial⟩
      all_goals exact ⟨⟨(fun h => by cases h), (fun s h => by cases h), hi.writer, (fun s o c h => by cases h), hi.wraps⟩, trivial⟩
    | other =>
      cases hc : st.code <;> simp only [step, applyDamage, hc]
      · exact ⟨⟨fun _ => hi.missing hc, (fun s h => by cases h), hi.writer, (fun s o c h => by cases h), hi.wraps⟩, trivial⟩
      all_goals exact ⟨⟨(fun h => by cases h), (fun s h => by cases h), hi.writer, (fun s o c h => by cases h), hi.wraps⟩, trivial⟩
  | fresh =>
    exact ⟨⟨fun h => ⟨(hi.missing h).1, rfl⟩, hi.stored, fun o c h => by simp [step] at h,
      fun s o c _ h => by simp [step] at h, fun w o ic h => by simp [step, dget] at h⟩, trivial⟩

theorem allCorrect_of_inv {sem : Src → Nat → R} : ∀ (ops : List Op) (st : State R), Inv sem st →
    (∀ op ∈ ops, NoDelete op) → AllCorrect Cfg.fixed sem st ops
  | [], _, _, _ => trivial
  | op :: ops, _, hi, hnd =>
    ⟨(step_spec hi op (hnd op List.mem_cons_self)).2,
      allCorrect_of_inv ops _ (step_spec hi op (hnd op List.mem_cons_self)).1
        fun o ho => hnd o (List.mem_cons_of_mem _ ho)⟩

theorem inv_exec {sem : Src → Nat → R} : ∀ (ops : List Op) (st : State R), Inv sem st →
    (∀ op ∈ ops, NoDelete op) → Inv sem (exec Cfg.fixed sem st ops)
  | [], _, hi, _ => hi
  | op :: ops, _, hi, hnd =>
    inv_exec ops _ (step_spec hi op (hnd op List.mem_cons_self)).1 fun o ho => hnd o (List.mem_cons_of_mem _ ho)

theorem exec_append (cfg : Cfg) (sem : Src → Nat → R) : ∀ (a b : List Op) (st : State R),
    exec cfg sem st (a ++ b) = exec cfg sem (exec cfg sem st a) b
  | [], _, _ => rfl
  | _ :: a, b, _ => exec_append cfg sem a b _

theorem quiet_noDelete {k : Src} {op : Op} (h : Quiet k op) : NoDelete op := by
  cases op <;> simp [Quiet, NoDelete] at h ⊢

/-! ## unchanged code keeps its cache -/

/-- All live functions run code with source `k`, and the stored code (if any) is `k`. -/
def AllSrc (k : Src) (st : State R) : Prop :=
  (∀ o c n, dget o st.live = some (c, n) → c.2 = k) ∧ (st.code = .missing ∨ st.code = .ok k)

theorem allSrc_init (k : Src) : AllSrc k (init : State R) :=
  ⟨fun o c n h => by simp [init, dget] at h, .inl rfl⟩

theorem dget_dset_cases {κ ν : Type} [DecidableEq κ] {k k' : κ} {v w : ν} {d : List (κ × ν)}
    (h : dget k' (dset k v d) = some w) : (k' = k ∧ w = v) ∨ (k' ≠ k ∧ dget k' d = some w) := by
  by_cases e : k' = k
  · subst e; rw [dget_dset_self] at h; cases h; exact .inl ⟨rfl, rfl⟩
  · rw [dget_dset_ne e] at h; exact .inr ⟨e, h⟩

theorem lookup_live {st : State R} {w : Nat} {o : Obj} {cur : CodeId} {named : Bool} {ic : InfoCache}
    (h : lookup st w = some (o, cur, named, ic)) : dget o st.live = some (cur, named) := by
  unfold lookup at h
  split at h
  · cases h
  · split at h
    · cases h
    · rename_i hl; cases h; exact hl

/-- With the stored code (if any) equal to the current code's source, the check keeps every entry
and leaves the stored code equal to that source. -/
theorem checkPrevious_keep {sem : Src → Nat → R} {st : State R} (hi : Inv sem st) (w : Nat) (o : Obj)
    (cur : CodeId) (named : Bool) {ic : InfoCache} (hic : InfoOK ic)
    (hc : st.code = .missing ∨ st.code = .ok cur.2) :
    let r := checkPrevious Cfg.fixed st w o cur named ic
    r.2.entries = st.entries ∧ r.2.code = .ok cur.2 ∧
      (st.code = .ok cur.2 → r.1 = true) := by
  obtain ⟨f1, _⟩ := funcCodeInfo_fixed (cur := cur) hic
  unfold checkPrevious
  split
  · rename_i hs
    have hp := shortcut_post hi hs
    refine ⟨rfl, ?_, fun _ => rfl⟩
    rcases hc with hc | hc
    · exact absurd hc hp.present
    · exact hc
  · simp only [f1]
    rcases hc with hc | hc
    · simp [hc, writeFuncCode]
    · simp [hc]

/-- A quiet step keeps `AllSrc` and every entry. -/
theorem quiet_step {sem : Src → Nat → R} {k : Src} {st : State R} (hi : Inv sem st)
    (hs : AllSrc k st) {op : Op} (hq : Quiet k op) :
    AllSrc k (step Cfg.fixed sem st op).2 ∧
      ∀ a r, dget a st.entries = some r → dget a (step Cfg.fixed sem st op).2.entries = some r := by
  cases op with
  | define o k' named =>
    simp only [Quiet] at hq
    subst hq
    refine ⟨⟨fun o' c n h => ?_, hs.2⟩, fun a r h => h⟩
    simp only [step] at h
    rcases dget_dset_cases h with ⟨_, e⟩ | ⟨_, h'⟩
    · cases e; rfl
    · exact hs.1 o' c n h'
  | wrap w o =>
    simp only [step]
    split <;> exact ⟨hs, fun a r h => h⟩
  | swap o c =>
    simp only [Quiet] at hq
    simp only [step]
    split
    · refine ⟨⟨fun o' c' n h => ?_, hs.2⟩, fun a r h => h⟩
      rcases dget_dset_cases h with ⟨_, e⟩ | ⟨_, h'⟩
      · cases e; exact hq
      · exact hs.1 o' c' n h'
    · exact ⟨hs, fun a r h => h⟩
  | call w a =>
    simp only [step]
    cases hl : lookup st w with
    | none => exact ⟨hs, fun a r h => h⟩
    | some p =>
      obtain ⟨o, cur, named, ic⟩ := p
      have hk : cur.2 = k := hs.1 o cur named (lookup_live hl)
      have hc : st.code = .missing ∨ st.code = .ok cur.2 := by rw [hk]; exact hs.2
      obtain ⟨k1, k2, k3⟩ := checkPrevious_keep hi w o cur named (lookup_infoOK hi hl) hc
      obtain ⟨_, _, k4⟩ := checkPrevious_spec hi (fun h => (hi.missing h).1) w o cur named (lookup_infoOK hi hl)
      have hall : AllSrc k (checkPrevious Cfg.fixed st w o cur named ic).2 :=
        ⟨fun o' c n h => hs.1 o' c n (k4 ▸ h), .inr (by rw [k2, hk])⟩
      simp only [isInCache]
      cases hr : (if (checkPrevious Cfg.fixed st w o cur named ic).1 = true then
          dget a (checkPrevious Cfg.fixed st w o cur named ic).2.entries else none) with
      | some v => simp only; exact ⟨hall, fun a' r h => by rw [k1]; exact h⟩
      | none =>
        simp only
        refine ⟨hall, fun a' r h => ?_⟩
        show dget a' (dset a _ _) = some r
        rw [k1]
        by_cases e : a' = a
        · subst e
          -- the entry was there: the stored code was `k` (not missing), so the check said yes and
          -- the lookup cannot have missed
          exfalso
          have hcode : st.code = .ok cur.2 := by
            rcases hc with hc | hc
            · rw [(hi.missing hc).1] at h; simp [dget] at h
            · exact hc
          simp [k3 hcode, k1, h] at hr
        · rw [dget_dset_ne e]; exact h
  | check w a =>
    simp only [step]
    cases hl : lookup st w with
    | none => exact ⟨hs, fun a r h => h⟩
    | some p =>
      obtain ⟨o, cur, named, ic⟩ := p
      have hk : cur.2 = k := hs.1 o cur named (lookup_live hl)
      have hc : st.code = .missing ∨ st.code = .ok cur.2 := by rw [hk]; exact hs.2
      obtain ⟨k1, k2, _⟩ := checkPrevious_keep hi w o cur named (lookup_infoOK hi hl) hc
      obtain ⟨_, _, k4⟩ := checkPrevious_spec hi (fun h => (hi.missing h).1) w o cur named (lookup_infoOK hi hl)
      exact ⟨⟨fun o' c n h => hs.1 o' c n (k4 ▸ h), .inr (by simp only [isInCache]; rw [k2, hk])⟩,
        fun a' r h => by simp only [isInCache]; rw [k1]; exact h⟩
  | clearFn w => simp [Quiet] at hq
  | clearAll => simp [Quiet] at hq
  | damage d => simp [Quiet] at hq
  | fresh =>
    exact ⟨⟨fun o c n h => by simp [step, dget] at h, hs.2⟩, fun a r h => h⟩

theorem quiet_exec {sem : Src → Nat → R} {k : Src} : ∀ (ops : List Op) (st : State R), Inv sem st →
    AllSrc k st → (∀ op ∈ ops, Quiet k op) →
    AllSrc k (exec Cfg.fixed sem st ops) ∧
      ∀ a r, dget a st.entries = some r → dget a (exec Cfg.fixed sem st ops).entries = some r
  | [], _, _, hs, _ => ⟨hs, fun _ _ h => h⟩
  | op :: ops, st, hi, hs, hq => by
    obtain ⟨s1, k1⟩ := quiet_step hi hs (hq op List.mem_cons_self)
    obtain ⟨s2, k2⟩ := quiet_exec ops _
      (step_spec hi op (quiet_noDelete (hq op List.mem_cons_self))).1 s1
      (fun o ho => hq o (List.mem_cons_of_mem _ ho))
    exact ⟨s2, fun a r h => k2 a r (k1 a r h)⟩

/-- A hit: the stored code is the current code's source and the entry is there ⇒ the call is served
from the cache; the stored code and the entries are left as they are. -/
theorem call_hit {sem : Src → Nat → R} {st : State R} (hi : Inv sem st) {w : Nat} {o : Obj}
    {cur : CodeId} {named : Bool} {ic : InfoCache} {a : Nat} {r : R}
    (hl : lookup st w = some (o, cur, named, ic)) (hc : st.code = .ok cur.2)
    (he : dget a st.entries = some r) :
    (step Cfg.fixed sem st (.call w a)).1 = .value r false ∧
      (step Cfg.fixed sem st (.call w a)).2.entries = st.entries ∧
      (step Cfg.fixed sem st (.call w a)).2.code = st.code := by
  obtain ⟨k1, k2, k3⟩ := checkPrevious_keep hi w o cur named (lookup_infoOK hi hl) (.inr hc)
  have e : step Cfg.fixed sem st (.call w a) =
      (.value r false, (checkPrevious Cfg.fixed st w o cur named ic).2) := by
    simp only [step, hl, isInCache, k3 hc, k1, he, if_true]
  rw [e]
  exact ⟨rfl, k1, by rw [k2, hc]⟩

end JoblibModel.FuncCode
