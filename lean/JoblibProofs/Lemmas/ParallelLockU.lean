import JoblibProofs.Lemmas.ParallelLockU.Basic
import JoblibProofs.Lemmas.ParallelLockU.Lock
import JoblibProofs.Lemmas.ParallelLockU.LockSteps
import JoblibProofs.Lemmas.ParallelLockU.Order
import JoblibProofs.Lemmas.ParallelLockU.Vals
import JoblibProofs.Lemmas.ParallelLockU.Timeout
import JoblibProofs.Lemmas.ParallelLockU.ErrSurf
import JoblibProofs.Lemmas.ParallelLockU.Chain
import JoblibProofs.Lemmas.ParallelLockU.Bound
import JoblibProofs.Lemmas.ParallelLockU.Nodup
import JoblibProofs.Lemmas.ParallelLockU.UChain
/-! Umbrella for the M1LU lemma files. -/
