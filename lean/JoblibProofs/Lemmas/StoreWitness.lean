import JoblibProofs.Lemmas.StoreCall
/-! Executable interleavings, for concrete witnesses (C05, C11). -/
namespace JoblibModel.Store

/-- is `p` a prefix of `q`? -/
def prefixB : Path → Path → Bool
  | [], _ => true
  | _ :: _, [] => false
  | a :: p, b :: q => a == b && prefixB p q

theorem prefixB_sound {p q : Path} (h : prefixB p q = true) : p <+: q := by
  induction p generalizing q with
  | nil => exact List.nil_prefix
  | cons a p ih =>
    cases q with
    | nil => simp [prefixB] at h
    | cons b q =>
      simp only [prefixB, Bool.and_eq_true, beq_iff_eq] at h
      obtain ⟨rfl, h2⟩ := h
      exact (List.cons_prefix_cons).mpr ⟨rfl, ih h2⟩

/-- removals a clearing participant may make: anything strictly below `<location>/joblib` -/
def clearRemovalB : Op → Bool
  | .unlink p _ => prefixB pLoc p && decide (p ≠ pLoc)
  | .rmdir p _ => prefixB pLoc p && decide (p ≠ pLoc)
  | _ => false

theorem clearRemovalB_sound {π : Par} {who : Nat → Prop} {fs : FS} {o : Op} (h : clearRemovalB o = true) :
    Allowed π .clear who fs o := by
  cases o with
  | unlink p g =>
    simp only [clearRemovalB, Bool.and_eq_true, decide_eq_true_eq] at h
    exact .unlinkC p g rfl ⟨prefixB_sound h.1, h.2⟩
  | rmdir p g =>
    simp only [clearRemovalB, Bool.and_eq_true, decide_eq_true_eq] at h
    exact .rmdirC p g rfl ⟨prefixB_sound h.1, h.2⟩
  | _ => simp [clearRemovalB] at h

/-- apply a list of environment calls, checking each with `ok` -/
def applyEnv (ok : Op → Bool) : List Op → FS → Option FS
  | [], fs => some fs
  | o :: r, fs => if ok o then applyEnv ok r (apply o fs).2 else none

/-- Run `p`; before its n-th call the environment makes the calls `envs[n]` (all must pass `ok`). -/
def runWithEnv {α : Type} (ok : Op → Bool) : Prog α → FS → List (List Op) → Option (Outcome α × FS)
  | .ret a, fs, _ => some (.ok a, fs)
  | .raise e, fs, _ => some (.raised e, fs)
  | .op o k, fs, envs =>
    match applyEnv ok (envs.headD []) fs with
    | none => none
    | some fs1 => runWithEnv ok (k (apply o fs1).1) (apply o fs1).2 envs.tail

theorem runs_env_prefix {α : Type} {R : FS → FS → Prop} {ok : Op → Bool}
    (hok : ∀ o fs, ok o = true → R fs (apply o fs).2) {o : Op} {k : Res → Prog α}
    (l : List Op) : ∀ (fs fs1 : FS) (tr : List (FS × Op)) (out : Outcome α) (fs' : FS),
      applyEnv ok l fs = some fs1 → Runs R (.op o k) fs1 tr out fs' → Runs R (.op o k) fs tr out fs' := by
  induction l with
  | nil => intro fs fs1 tr out fs' h hr; simp [applyEnv] at h; subst h; exact hr
  | cons e r ih =>
    intro fs fs1 tr out fs' h hr
    unfold applyEnv at h
    split at h
    · rename_i hoke
      exact .env (hok e fs hoke) (ih _ _ _ _ _ h hr)
    · cases h

theorem runWithEnv_runs {α : Type} {R : FS → FS → Prop} {ok : Op → Bool}
    (hok : ∀ o fs, ok o = true → R fs (apply o fs).2) (p : Prog α) :
    ∀ (fs : FS) (envs : List (List Op)) (out : Outcome α) (fs' : FS),
      runWithEnv ok p fs envs = some (out, fs') → ∃ tr, Runs R p fs tr out fs' := by
  induction p with
  | ret a => intro fs envs out fs' h; simp [runWithEnv] at h; obtain ⟨rfl, rfl⟩ := h; exact ⟨[], .ret a fs⟩
  | raise e => intro fs envs out fs' h; simp [runWithEnv] at h; obtain ⟨rfl, rfl⟩ := h; exact ⟨[], .raise e fs⟩
  | op o k ih =>
    intro fs envs out fs' h
    unfold runWithEnv at h
    split at h
    · cases h
    · rename_i fs1 he
      obtain ⟨tr, hr⟩ := ih _ _ _ _ _ h
      exact ⟨(fs1, o) :: tr, runs_env_prefix hok _ _ _ _ _ _ he (.step hr)⟩

end JoblibModel.Store
