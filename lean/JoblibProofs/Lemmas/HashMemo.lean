import JoblibModel.HashMemo
/-! Helper lemmas for the memo numbering (C08, shared references). -/
namespace JoblibModel.HashMemo

theorem indices_foldl (objs : List Nat) (m : Memo) :
    indices (objs.foldl memoize m) = indices m ++ List.range' m.length objs.length := by
  induction objs generalizing m with
  | nil => simp [indices]
  | cons o os ih =>
    rw [List.foldl_cons, ih]
    simp [indices, memoize, List.range'_succ]

theorem indices_run (objs : List Nat) : indices (run objs) = List.range objs.length := by
  have h := indices_foldl objs []
  rw [run, h]
  simp [indices, List.range_eq_range']

theorem length_run (objs : List Nat) : (run objs).length = objs.length := by
  have h := congrArg List.length (indices_run objs)
  simpa [indices] using h

theorem owners_length (m : Memo) (k : Nat) : (owners m k).length = (indices m).count k := by
  induction m with
  | nil => simp [owners, indices]
  | cons e m ih =>
    simp only [owners, indices, List.length_map] at ih ⊢
    by_cases h : e.2 = k
    · simp [List.filter_cons, h, ih]
    · have h' : ¬ (e.2 == k) = true := by simpa using h
      simp [List.filter_cons, h, ih]

end JoblibModel.HashMemo
