import JoblibProofs.Lemmas.DumpLoad
/-!
# C03 — dump/load round-trips every picklable object under every compressor/target

Statement (properties.jsonl): for every picklable Python object, every supported compressor and level,
every pickle protocol, and whether the target is a path (with or without a compression extension), an open
file object or an in-memory buffer, `load(dump(x))` reconstructs an object equal to `x`, with shared and
recursive references preserved. The compression format is recognised from the file content, so a file loads
identically whatever it is named.

Quantifier reached here: EVERY compress argument (`CompressArg`: `True`/`False`/`None`, any integer, integral
floats, any string, any 2-tuple of (string | other hashable | unhashable, any level value), tuples of any other
length, other objects), EVERY target (any file name, file objects, non-files), every protocol
`0 … pickle.HIGHEST_PROTOCOL`, every object and every payload (byte strings of any length), every file name
at load time.

What is PROVED is that dump-time resolution and load-time sniffing always select matching codecs, for the
magic-number / extension / opcode tables that the code has NOW (`JoblibModel.Generated.Tables`, regenerated
from the live objects on every run; the table-level facts below are re-checked by `decide` against it).
CPython's `pickle` and the C codecs are PARAMETERS (`Env`) constrained by the explicit laws `Laws`
(trusted base, DESIGN 3.1): `unpickle ∘ pickle = id`, a pickle of protocol 0–5 starts as CPython's opcode
table says, a codec's output starts with its magic number, `decompress ∘ compress = id`. Shared/recursive
reference preservation is pickle's memo: it is inside the `unpickle ∘ pickle = id` parameter and is tested by
the harness (identity structure), not proved.

Model: `JoblibModel.DumpLoad` (`numpy_pickle.dump`, `_write_fileobject`, `_detect_compressor`, `load`).
-/
namespace C03
open JoblibModel.DumpLoad JoblibModel.Generated

/-! ## Table-level facts (finite tables, re-proved against the regenerated file) -/

/-- No magic prefix is a prefix of another one (entries with comparable prefixes are the same entry), so at
most one entry matches any file and the dict order of `_COMPRESSORS` does not matter for sniffing. -/
theorem table_prefix_free :
    compressors.all (fun c => compressors.all (fun c' =>
      !(comparable c.pfx c'.pfx) || c.name == c'.name)) = true := by decide

/-- The pre-0.10 `ZF` prefix is comparable with no compressor prefix: a compressed file is never taken for
a compat file, nor the other way round. -/
theorem table_disjoint_from_compat :
    compressors.all (fun c => !(comparable zfilePrefix c.pfx)) = true := by decide

/-- No magic prefix (nor `ZF`) can begin a pickle of protocol 0–5 as CPython's opcode table defines it:
`\x80` + protocol for protocols ≥ 2; for protocols 0/1 a first opcode that needs an empty stack, and — where
a magic number shares it (`]` of the LZMA prefix `]\x00`) — a second opcode, which `\x00` is not. -/
theorem table_disjoint_from_pickle :
    compressors.all (fun c => !(prefixMayStartPickle c.pfx)) = true
    ∧ prefixMayStartPickle zfilePrefix = false := by decide

/-- Compressor names are distinct (dict keys), `"zlib"` — the literal default of `dump` and the fallback of
`_write_fileobject` — is registered, available, and is not the name tested against `lz4 is None`. -/
theorem table_names :
    (compressors.map (·.name)).Nodup
    ∧ registered "zlib" = true
    ∧ (lookup "zlib").map (·.available) = some true := by decide

/-- No registered extension is a suffix of another one and none is empty: at most one entry matches any file
name, so "the last match wins" in `dump`'s loop never has two candidates to choose from. -/
theorem table_extensions_suffix_free :
    compressors.all (fun c => c.ext != "" && compressors.all (fun c' =>
      !(c.ext.toList.isSuffixOf c'.ext.toList) || c.name == c'.name)) = true := by decide

/-- The five extensions `dump`'s docstring promises ("The compression method corresponding to one of the
supported filename extensions ('.z', '.gz', '.bz2', '.xz' or '.lzma') will be used automatically") select
the compressor of that name. -/
theorem table_documented_extensions :
    [("zlib", ".z"), ("gzip", ".gz"), ("bz2", ".bz2"), ("xz", ".xz"), ("lzma", ".lzma")].all
      (fun ne => (lookup ne.1).map (·.ext) == some ne.2) = true := by decide

/-- The model's `max_prefix_len` is the number the code computes. -/
theorem table_max_prefix_len : maxPrefixLen = prefixesMaxLen := by decide

/-- `lz4 is None` in `dump` agrees with the availability recorded for the entry named `lz4`. -/
theorem table_lz4_flag :
    (lookup "lz4").map (·.available) = some lz4Installed ∨ lookup "lz4" = none := by decide

/-! ## detect_after_write -/

/-- Load-time sniffing recognises every format from the content: whatever follows the magic number of a
registered compressor, `_detect_compressor` answers that compressor. -/
theorem detect_after_write (c : CompressorEntry) (hc : c ∈ compressors) (rest : Bytes) :
    detect (c.pfx ++ rest) = .method c.name := by
  rw [detect_eq]
  have hself : startsWith (c.pfx ++ rest) c.pfx = true := isPrefixOf_append_self c.pfx rest
  have hzf : startsWith (c.pfx ++ rest) zfilePrefix = false := by
    cases h : startsWith (c.pfx ++ rest) zfilePrefix with
    | false => rfl
    | true =>
      have hcmp := comparable_of_common h hself
      have := List.all_eq_true.mp table_disjoint_from_compat c hc
      simp [hcmp] at this
  rw [hzf]
  simp only [Bool.false_eq_true, if_false]
  apply detectIn_unique compressors _ c hc hself
  intro c' hc' hstart
  have hcmp := comparable_of_common hstart hself
  have h1 := List.all_eq_true.mp (List.all_eq_true.mp table_prefix_free c' hc') c hc
  simpa [hcmp] using h1

/-- … and every file that starts the way a pickle of protocol 0–5 can start is recognised as not compressed. -/
theorem detect_pickle (file : Bytes) (h : isPickleStart file = true) : detect file = .notCompressed := by
  rw [detect_eq]
  have hzf : startsWith file zfilePrefix = false := by
    cases hz : startsWith file zfilePrefix with
    | false => rfl
    | true =>
      have := mayStart_of_prefix zfilePrefix file h hz
      rw [table_disjoint_from_pickle.2] at this
      exact absurd this (by decide)
  rw [hzf]
  simp only [Bool.false_eq_true, if_false]
  apply detectIn_none
  intro c hc
  cases hs : startsWith file c.pfx with
  | false => rfl
  | true =>
    have := mayStart_of_prefix c.pfx file h hs
    have h2 := List.all_eq_true.mp table_disjoint_from_pickle.1 c hc
    simp [this] at h2

/-! ## roundtrip -/

/-- The laws the parameters (CPython's pickle, the codecs) are assumed to satisfy. -/
structure Laws {Obj : Type} (E : Env Obj) : Prop where
  unpickle_pickle : ∀ proto, proto ≤ pickleHighestProtocol → ∀ x, E.unpickle (E.pickle proto x) = some x
  pickle_start : ∀ proto, proto ≤ pickleHighestProtocol → ∀ x, isPickleStart (E.pickle proto x) = true
  magic : ∀ c ∈ compressors, c.available = true → ∀ l b, c.pfx <+: E.compress c.name l b
  inverse : ∀ c ∈ compressors, c.available = true → ∀ l b, E.decompress c.name (E.compress c.name l b) = some b

/-- **Round trip.** For every object, compress argument, target, file name at dump time and protocol for
which `dump` does not raise, `load` of the bytes written gives back the object — under whatever name the file
is loaded. -/
theorem roundtrip {Obj : Type} (E : Env Obj) (L : Laws E) (x : Obj) (compress : CompressArg)
    (filename : Target) (protocol : Nat) (hp : protocol ≤ pickleHighestProtocol) (file : Bytes)
    (hdump : dump E x compress filename protocol = .ok file) (nameAtLoad : String) :
    load E nameAtLoad file = some x := by
  unfold dump at hdump
  cases hh : dumpHeader compress filename with
  | error e => rw [hh] at hdump; cases hdump
  | ok w =>
    rw [hh] at hdump
    cases w with
    | raw =>
      have hf : file = E.pickle protocol x := by simp at hdump; exact hdump.symm
      subst hf
      unfold load
      rw [detect_pickle _ (L.pickle_start protocol hp x)]
      exact L.unpickle_pickle protocol hp x
    | codec n l =>
      have hf : file = E.compress n l (E.pickle protocol x) := by simp at hdump; exact hdump.symm
      subst hf
      unfold dumpHeader at hh
      cases hr : resolve compress filename with
      | error e => rw [hr] at hh; cases hh
      | ok r =>
        rw [hr] at hh
        obtain ⟨c, hc, hn, hav⟩ := writer_codec_registered r n l hh
        subst hn
        obtain ⟨rest, hrest⟩ := L.magic c hc hav l (E.pickle protocol x)
        unfold load
        rw [← hrest, detect_after_write c hc rest, hrest]
        simp only []
        rw [L.inverse c hc hav l (E.pickle protocol x)]
        exact L.unpickle_pickle protocol hp x

/-! ## resolve_total -/

/-! The acceptance specification (`ArgOK`, `MethodOK`, `LevelOK`) is DEFINED in
`JoblibProofs/Lemmas/DumpLoad.lean`; it is spelled out here (checked by `rfl`, so this is what it says):
a level is acceptable when it is `None`, a bool, an integer in 0…9 or an integral float 0.0…9.0; a method name
when it is registered and is not `"lz4"` while the lz4 package is missing; a compress argument when it is a
level value on its own, a method name on its own, or a 2-tuple of an acceptable name and an acceptable level.
Nothing else: tuples of another length, and tuples whose first element is not a string, are rejected. -/
example (l : PyLevel) : ArgOK (.val l) = LevelOK l := rfl
example (s : String) : ArgOK (.str s) = MethodOK s := rfl
example (s : String) (l : PyLevel) : ArgOK (.tuple2 (.str s) l) = (MethodOK s && LevelOK l) := rfl
example (l : PyLevel) : ArgOK (.tuple2 .hashable l) = false ∧ ArgOK (.tuple2 .unhashable l) = false := ⟨rfl, rfl⟩
example (n : Nat) : ArgOK (.tupleN n) = false := rfl
example (s : String) : MethodOK s = (registered s && !(s == "lz4" && !lz4Installed)) := rfl
example (n : Int) : LevelOK (.int n) = (decide (0 ≤ n) && decide (n < 10)) ∧ LevelOK (.float n) = (decide (0 ≤ n) && decide (n < 10)) := ⟨rfl, rfl⟩
example (b : Bool) : LevelOK .none = true ∧ LevelOK (.bool b) = true ∧ LevelOK .other = false := ⟨rfl, rfl, rfl⟩

/-- **The exact set of accepted arguments**: the ladder of `dump` succeeds iff the compress argument is one of
the documented forms (`ArgOK`, above) and the target is a path or has a `write` attribute. -/
theorem resolve_total (compress : CompressArg) (filename : Target) :
    (∃ r, resolve compress filename = .ok r) ↔ (ArgOK compress = true ∧ filename ≠ .other) := by
  have hz : MethodOK "zlib" = true := by
    have := table_names.2.1
    simp [MethodOK, this]
  cases compress with
  | tupleN n => simp [resolve, parseArg, ArgOK]
  | str s =>
    simp only [resolve, parseArg, ArgOK]
    rw [resolveTail_str_ok]
    simp [LevelOK]
  | tuple2 m l =>
    cases m with
    | str s =>
      simp only [resolve, parseArg, ArgOK]
      rw [resolveTail_str_ok]
      simp [and_assoc]
    | hashable =>
      simp only [resolve, parseArg, ArgOK, resolveTail, checkMethod]
      simp only [Bool.false_eq_true, false_and, iff_false, not_exists]
      intro r; split
      · simp
      · split <;> simp
    | unhashable =>
      simp only [resolve, parseArg, ArgOK, resolveTail, checkMethod]
      simp only [Bool.false_eq_true, false_and, iff_false, not_exists]
      intro r; split
      · simp
      · split <;> simp
  | val l =>
    rw [resolve_val, resolveTail_str_ok]
    simp only [ArgOK, hz, true_and]
    by_cases hb : l = .bool true
    · subst hb; simp [LevelOK]
    · simp [hb]

/-- **The error class of every rejected argument**: `TypeError` exactly for an unhashable object in the method
position of a 2-tuple whose level is acceptable (the dict lookup `compress_method not in _COMPRESSORS` raises
it); every other rejection is a `ValueError`. -/
theorem resolve_error_class (compress : CompressArg) (filename : Target) (e : Err)
    (h : resolve compress filename = .error e) :
    (e = .typeError ↔ ∃ l, compress = .tuple2 .unhashable l ∧ LevelOK l = true) ∧
    (e = .valueError ∨ e = .typeError) := by
  refine ⟨?_, by cases e <;> simp⟩
  cases compress with
  | tupleN n =>
    simp [resolve, parseArg] at h
    subst h; simp
  | str s =>
    simp only [resolve, parseArg] at h
    have := resolveTail_str_error s _ _ _ _ h
    subst this; simp
  | val l =>
    rw [resolve_val] at h
    have := resolveTail_str_error _ _ _ _ _ h
    subst this; simp
  | tuple2 m l =>
    cases m with
    | str s =>
      simp only [resolve, parseArg] at h
      have := resolveTail_str_error s _ _ _ _ h
      subst this; simp
    | hashable =>
      simp only [resolve, parseArg, resolveTail, checkMethod] at h
      have : e = .valueError := by
        split at h
        · cases h; rfl
        · split at h <;> (cases h; rfl)
      subst this; simp
    | unhashable =>
      simp only [resolve, parseArg, resolveTail, checkMethod] at h
      simp only [show (PyMethod.unhashable == PyMethod.str "lz4") = false from rfl, Bool.false_and,
        Bool.false_eq_true, if_false] at h
      rw [levelBad_eq] at h
      by_cases hl : LevelOK l = true
      · simp [hl] at h
        subst h; simp [hl]
      · simp [hl] at h
        subst h; simp [hl]

/-! ## What the accepted arguments resolve to -/

/-- An explicit `(name, level)` tuple — and a bare name, which the code turns into `(name, None)` — is
honoured whatever the target: the file name's extension is never consulted. -/
theorem tuple_ignores_filename (m : PyMethod) (l : PyLevel) (f₁ f₂ : String) :
    resolve (.tuple2 m l) (.path f₁) = resolve (.tuple2 m l) (.path f₂)
    ∧ resolve (.tuple2 m l) (.path f₁) = resolve (.tuple2 m l) .fileobj := by
  constructor <;>
  · simp only [resolve, parseArg, resolveTail]
    split
    · rfl
    · split
      · rfl
      · cases checkMethod m <;> simp [finish]

theorem str_ignores_filename (s : String) (f₁ : String) :
    resolve (.str s) (.path f₁) = resolve (.str s) .fileobj := by
  simp only [resolve, parseArg, resolveTail]
  split
  · rfl
  · split
    · rfl
    · cases checkMethod (.str s) <;> simp [finish]

/-- Level-0 rule, tuple form: `(name, 0)` / `(name, False)` writes the RAW pickle whatever the file is called. -/
theorem level_zero_rule (s : String) (l : PyLevel) (hz : l.eqZero = true) (tgt : Target) (w : Writer)
    (h : dumpHeader (.tuple2 (.str s) l) tgt = .ok w) : w = .raw := by
  unfold dumpHeader at h
  cases hr : resolve (.tuple2 (.str s) l) tgt with
  | error e => rw [hr] at h; cases h
  | ok r =>
    rw [hr] at h
    have hlev : r.level = l := by
      simp only [resolve, parseArg] at hr
      exact resolveTail_level _ _ _ _ hr
    simp only [writer, hlev, hz, if_true] at h
    cases h; rfl

/-- Extension-implied compressor: with a non-tuple, non-string `compress` that `dump` accepts, a path ending in a
registered extension is written with THAT compressor — at its default level when `compress` is falsy (`0`,
`False`, `0.0`: the level-0 rule for paths), at the given level otherwise. -/
theorem extension_implies_method (l : PyLevel) (fname : String) (c : CompressorEntry)
    (hc : c ∈ compressors) (hext : endsWith fname c.ext = true) (r : Resolved)
    (h : resolve (.val l) (.path fname) = .ok r) :
    r.method = some c.name ∧ (l.eqZero = true → r.level = .none) := by
  have hm : extMethod fname = some c.name := by
    apply extLoop_unique fname compressors none c.name (Or.inl ⟨c, hc, hext⟩)
    intro c' hc' he'
    -- both extensions are suffixes of the file name, hence one is a suffix of the other
    have h1 : c'.ext.toList <:+ fname.toList := by simpa [endsWith] using he'
    have h2 : c.ext.toList <:+ fname.toList := by simpa [endsWith] using hext
    have hsf := List.all_eq_true.mp table_extensions_suffix_free
    rcases List.suffix_or_suffix_of_suffix h1 h2 with hs | hs
    · have := hsf c' hc'
      simp only [Bool.and_eq_true] at this
      have := List.all_eq_true.mp this.2 c hc
      have hs' : c'.ext.toList.isSuffixOf c.ext.toList = true := by simpa using hs
      simpa [hs'] using this
    · have := hsf c hc
      simp only [Bool.and_eq_true] at this
      have := List.all_eq_true.mp this.2 c' hc'
      have hs' : c.ext.toList.isSuffixOf c'.ext.toList = true := by simpa using hs
      have := (by simpa [hs'] using this : c.name = c'.name)
      exact this.symm
  have hck : checkMethod (.str "zlib") = .ok "zlib" := by simp [checkMethod, table_names.2.1]
  have hfin : ∀ lv, finish "zlib" lv false (.path fname)
      = .ok ⟨some c.name, if lv.eqZero then .none else lv⟩ := by
    intro lv
    simp only [finish, hm, Option.isSome_some, Bool.true_and, Bool.false_eq_true, if_false]
    cases lv.eqZero <;> rfl
  rw [resolve_val] at h
  generalize hlv : (if l = PyLevel.bool true then PyLevel.none else l) = lv at h
  unfold resolveTail at h
  rw [hck] at h
  by_cases h1 : (PyMethod.str "zlib" == PyMethod.str "lz4" && !lz4Installed) = true
  · simp [h1] at h
  · by_cases h2 : levelBad lv = true
    · simp [h1, h2] at h
    · simp only [h1, h2, Bool.false_eq_true, if_false, hfin, Except.ok.injEq] at h
      subst h
      refine ⟨rfl, fun hz => ?_⟩
      by_cases hb : l = .bool true
      · subst hb; simp [PyLevel.eqZero] at hz
      · simp only [hb, if_false] at hlv
        subst hlv
        simp [hz]

/-- A codec's file object is handed the level as given; an integral float that slipped through `dump`'s own
`in range(10)` test is rejected there, with the class recorded in the regenerated table. -/
theorem writer_float (m : String) (n : Int) (hn : n ≠ 0) (c : CompressorEntry)
    (hm : registered m = true) (hl : lookup m = some c) (hav : c.available = true) :
    (∀ e, errOfName c.floatLevelErr = some e → writer ⟨some m, .float n⟩ = .error e)
    ∧ (errOfName c.floatLevelErr = none → writer ⟨some m, .float n⟩ = .ok (.codec m none)) := by
  constructor
  · intro e he
    simp [writer, PyLevel.eqZero, hn, hm, hl, hav, he]
  · intro he
    simp [writer, PyLevel.eqZero, hn, hm, hl, hav, he]

/-- With an integer/bool/`None` level the writer fails only when the selected compressor is not available
(`.lz4` extension without the lz4 package): then `dump` raises `ValueError`. -/
theorem writer_unavailable (m : String) (l : PyLevel) (c : CompressorEntry) (hz : l.eqZero = false)
    (hm : registered m = true) (hl : lookup m = some c) (hav : c.available = false) :
    writer ⟨some m, l⟩ = .error .valueError := by
  simp [writer, hz, hm, hl, hav]

/-- A toy environment: "pickle" = the start CPython prescribes + the payload, "compress" = magic + payload. -/
def toyEnv : Env Bytes where
  pickle := fun p x => (if 2 ≤ p then [pickleProtoOpcode, p] else [78, 46]) ++ x
  unpickle := fun b => some (b.drop 2)
  compress := fun n _ b => ((lookup n).map (·.pfx)).getD [] ++ b
  decompress := fun n b => some (b.drop (((lookup n).map (·.pfx)).getD []).length)

/-! ## open file objects with the cursor past 0 (header + dump, dumps back to back) -/

/-- **Sniffing a buffered, seekable file does not move the cursor** and detects what is AT the cursor, whatever the
state of its read buffer (`peeked` = the number of bytes `peek` happens to return): since the F43 repair a short
`peek` is completed by `read(max_prefix_len)` + `seek(position)`. -/
theorem sniff_keeps_cursor (file : Bytes) (pos peeked : Nat) :
    sniff true peeked file pos = (detect (file.drop pos), pos) := by
  unfold sniff detect
  by_cases hp : peeked < maxPrefixLen
  · simp [hp, List.take_take]
  · have hle : maxPrefixLen ≤ peeked := Nat.le_of_not_lt hp
    simp [hp, List.take_take, Nat.min_eq_left hle]

/-- A peekable object that is NOT seekable (a buffered reader over a pipe) cannot be read-and-rewound: there the
detection still relies on what `peek` returned (`_partial`: at least `max_prefix_len` bytes). -/
theorem sniff_nonseekable_partial (file : Bytes) (pos peeked : Nat) (hp : maxPrefixLen ≤ peeked) :
    sniff true peeked file pos false = (detect (file.drop pos), pos) := by
  unfold sniff detect
  simp [List.take_take, Nat.min_eq_left hp]

/-- F43 witness, as repaired: a buffered file whose read buffer holds ONE more byte when the gzip dump starts (an
8191-byte header under an 8192-byte buffer). Seekable: recognised (before the repair `peek` returned `\x1f` only, the
two-byte gzip magic was not recognised and the compressed stream was handed to the unpickler). Not seekable: the
short peek is all there is, and the stream is still misread — outside what `load` supports for compressed data
(the decompressor file objects need `seek`/`tell`). -/
theorem sniff_short_peek_counterexample :
    sniff true 1 ([9, 9, 9] ++ [31, 139, 8, 0]) 3 = (.method "gzip", 3)
    ∧ sniff true 1 ([9, 9, 9] ++ [31, 139, 8, 0]) 3 false = (.notCompressed, 3)
    ∧ sniff true 2 ([9, 9, 9] ++ [31, 139, 8, 0]) 3 false = (.method "gzip", 3) := by
  decide

/-- **load after dump at offset k, buffered files.** For every header of every length `k` written before the dump,
every object / compress argument / target / protocol that `dump` accepts, and every state of the read buffer:
`load(f)` with the cursor at `k` returns the object. -/
theorem load_after_dump_at_offset {Obj : Type} (E : Env Obj) (L : Laws E) (x : Obj)
    (compress : CompressArg) (filename : Target) (protocol : Nat) (hp : protocol ≤ pickleHighestProtocol)
    (file header : Bytes) (hdump : dump E x compress filename protocol = .ok file) (nameAtLoad : String)
    (peeked : Nat) :
    loadAt E true peeked nameAtLoad (header ++ file) header.length = some x := by
  have hr := roundtrip E L x compress filename protocol hp file hdump nameAtLoad
  have hd : (header ++ file).drop header.length = file := List.drop_left' rfl
  unfold loadAt
  rw [sniff_keeps_cursor, hd]
  unfold load at hr
  cases hdet : detect file with
  | compat => rw [hdet] at hr; simp at hr
  | method n => rw [hdet] at hr; simpa [hd] using hr
  | notCompressed => rw [hdet] at hr; simpa [hd] using hr

/-- **File objects without `peek` are rewound** (behaviour, intended — `io.BytesIO`, raw unbuffered files,
wrappers): wherever the cursor is, after sniffing it is at byte 0; the magic number, however, is looked for where
the cursor WAS. -/
theorem sniff_peekless_rewinds (peeked : Nat) (file : Bytes) (pos : Nat) :
    sniff false peeked file pos = (detect (file.drop pos), 0) := rfl

/-- … so with the cursor at 0, `load` of a peek-less object holding one dump returns the object, for every
compress argument / protocol `dump` accepts … -/
theorem load_peekless_from_start {Obj : Type} (E : Env Obj) (L : Laws E) (x : Obj)
    (compress : CompressArg) (filename : Target) (protocol : Nat) (hp : protocol ≤ pickleHighestProtocol)
    (file : Bytes) (hdump : dump E x compress filename protocol = .ok file) (nameAtLoad : String) (peeked : Nat) :
    loadAt E false peeked nameAtLoad file 0 = some x := by
  have hr := roundtrip E L x compress filename protocol hp file hdump nameAtLoad
  unfold loadAt sniff
  simp only [Bool.false_eq_true, if_false, List.drop_zero]
  unfold load at hr
  cases hdet : detect file with
  | compat => rw [hdet] at hr; simp at hr
  | method n => rw [hdet] at hr; simpa using hr
  | notCompressed => rw [hdet] at hr; simpa using hr

/-- … and "dump; load WITHOUT rewinding" (`f = io.BytesIO(); dump(obj, f); load(f)`, the cursor at the end)
returns the object when the dump is not compressed: nothing is read at the end of the object, nothing is
detected, the object is rewound and the pickle at byte 0 is read. (With a compressed dump the same call hands
compressed bytes to the unpickler — `load_peekless_compressed_needs_rewinding`.) -/
theorem load_peekless_without_rewinding {Obj : Type} (E : Env Obj) (L : Laws E) (x : Obj)
    (compress : CompressArg) (filename : Target) (protocol : Nat) (hp : protocol ≤ pickleHighestProtocol)
    (hraw : dumpHeader compress filename = .ok .raw) (file : Bytes)
    (hdump : dump E x compress filename protocol = .ok file) (nameAtLoad : String) (peeked : Nat) :
    loadAt E false peeked nameAtLoad file file.length = some x := by
  have hf : file = E.pickle protocol x := by
    unfold dump at hdump
    rw [hraw] at hdump
    simp at hdump
    exact hdump.symm
  subst hf
  unfold loadAt sniff
  have hempty : detect ([] : Bytes) = .notCompressed := by decide
  simp only [Bool.false_eq_true, if_false, List.drop_length, hempty, List.drop_zero]
  exact L.unpickle_pickle protocol hp x

/-- Behaviour witness: a zlib dump in a peek-less object with the cursor left at the end is NOT recognised as
compressed (nothing to sniff there) and is unpickled as it is; from the start it loads. -/
theorem load_peekless_compressed_needs_rewinding :
    let file := toyEnv.compress "zlib" (some 3) (toyEnv.pickle 4 [7, 7])
    sniff false 0 file file.length = (.notCompressed, 0)
    ∧ loadAt toyEnv false 0 "f" file file.length ≠ some [7, 7]
    ∧ loadAt toyEnv false 0 "f" file 0 = some [7, 7] := by
  decide

/-! ## histories: several dump / load calls in one process, bindings re-bound in between

`load` keeps nothing between calls: its answer is a function of the bytes in the slot and of the CURRENT bindings
only — whatever the process dumped, loaded or re-bound before. Stated over sequences of operations (`hstep`,
`hfinal`): the history is arbitrary, only its last state matters, and of that state only the slot and the bindings. -/

/-- Operations that do not write `slot` leave its content alone; the bindings after them are `rebindsOf`. -/
theorem history_frame {B Obj : Type} (envOf : B → Env Obj) (slot : String) (t : List (HOp B Obj))
    (hw : ∀ op ∈ t, op.writes slot = false) (s : Proc B) :
    (hfinal envOf s t).files.lookup slot = s.files.lookup slot
    ∧ (hfinal envOf s t).bindings = rebindsOf t s.bindings := by
  induction t generalizing s with
  | nil => exact ⟨rfl, rfl⟩
  | cons op ops ih =>
    have hw' : ∀ op ∈ ops, op.writes slot = false := fun o ho => hw o (List.mem_cons_of_mem _ ho)
    have hop := hw op List.mem_cons_self
    cases op with
    | dump sl v c f p =>
      simp only [HOp.writes, beq_eq_false_iff_ne, ne_eq] at hop
      simp only [hfinal, hstep, rebindsOf]
      cases hd : dump (envOf s.bindings) v c f p with
      | error e => exact ih hw' s
      | ok b =>
        have := ih hw' { s with files := (sl, b) :: s.files }
        refine ⟨?_, this.2⟩
        rw [this.1]
        simp only [List.lookup_cons]
        have : (slot == sl) = false := by simpa [beq_eq_false_iff_ne] using fun h => hop h.symm
        rw [this]
    | load sl =>
      simp only [hfinal, hstep, rebindsOf]
      cases s.files.lookup sl <;> exact ih hw' s
    | rebind f =>
      simp only [hfinal, hstep, rebindsOf]
      exact ih hw' { s with bindings := f s.bindings }

/-- **`load` is history-independent.** Take two arbitrary histories `h₁`, `h₂` from arbitrary states. If, at the end,
the slot holds the same bytes and the bindings give the same environment, `load` answers the same. -/
theorem load_history_independent {B Obj : Type} (envOf : B → Env Obj) (slot : String)
    (s₁ s₂ : Proc B) (h₁ h₂ : List (HOp B Obj))
    (hfile : (hfinal envOf s₁ h₁).files.lookup slot = (hfinal envOf s₂ h₂).files.lookup slot)
    (henv : envOf (hfinal envOf s₁ h₁).bindings = envOf (hfinal envOf s₂ h₂).bindings) :
    (hstep envOf (hfinal envOf s₁ h₁) (.load slot)).2 = (hstep envOf (hfinal envOf s₂ h₂) (.load slot)).2 := by
  simp only [hstep, hfile, henv]
  cases (hfinal envOf s₂ h₂).files.lookup slot <;> rfl

/-- **What a load after a history answers**: the bytes the slot held before the operations that did not write it,
decoded under the bindings AS THEY ARE NOW (after all the re-bindings of the history) — an old file follows the
current bindings, exactly like `pickle.loads` of the same bytes at that instant. -/
theorem load_after_history {B Obj : Type} (envOf : B → Env Obj) (slot : String) (s : Proc B)
    (t : List (HOp B Obj)) (hw : ∀ op ∈ t, op.writes slot = false) :
    (hstep envOf (hfinal envOf s t) (.load slot)).2 =
      match s.files.lookup slot with
      | none => .noFile
      | some b => .loaded (load (envOf (rebindsOf t s.bindings)) slot b) := by
  obtain ⟨h1, h2⟩ := history_frame envOf slot t hw s
  simp only [hstep, h1, h2]
  cases s.files.lookup slot <;> rfl

/-- **Round trip inside any history.** In ANY state `s` (reached by whatever history), for every object, compress
argument, target and protocol that `dump` accepts under the current bindings: after the dump and then any
operations that neither write that slot nor change the environment (loads and dumps of other slots, re-bindings
that leave `envOf` as it is), `load` gives back the object. -/
theorem roundtrip_in_history {B Obj : Type} (envOf : B → Env Obj) (s : Proc B) (L : Laws (envOf s.bindings))
    (slot : String) (x : Obj) (compress : CompressArg) (filename : Target) (protocol : Nat)
    (hp : protocol ≤ pickleHighestProtocol)
    (hok : (hstep envOf s (.dump slot x compress filename protocol)).2 = .dumped)
    (t : List (HOp B Obj)) (hw : ∀ op ∈ t, op.writes slot = false)
    (henv : envOf (rebindsOf t s.bindings) = envOf s.bindings) :
    (hstep envOf (hfinal envOf s (.dump slot x compress filename protocol :: t)) (.load slot)).2
      = .loaded (some x) := by
  simp only [hfinal]
  cases hd : dump (envOf s.bindings) x compress filename protocol with
  | error e => simp [hstep, hd] at hok
  | ok b =>
    have hs : (hstep envOf s (.dump slot x compress filename protocol)).1 = { s with files := (slot, b) :: s.files } := by
      simp [hstep, hd]
    rw [hs, load_after_history envOf slot _ t hw]
    simp only [List.lookup_cons, beq_self_eq_true, henv]
    rw [roundtrip (envOf s.bindings) L x compress filename protocol hp b hd slot]

/-- Witness (the instance the driver runs): an instance of global 0 is dumped while the global is at version 0, the
global is re-bound (version 1), the OLD file is loaded: the object comes back as an instance of the class bound NOW;
a dump made after the re-binding comes back alike; the failed dump in between left the slot alone. -/
theorem old_file_follows_current_bindings :
    hreplies histEnv ⟨[], [(0, 0)]⟩
      [.dump "a" (0, 0, 7) (.val (.int 3)) (.path "a") 4, .load "a",
       .rebind (fun b => (0, 1) :: b), .load "a",
       .dump "a" (0, 0, 8) (.val (.int 10)) (.path "a") 4, .load "a",
       .dump "b" (0, 0, 9) (.tuple2 (.str "gzip") (.int 1)) .fileobj 2, .load "b", .load "c"]
    = [.dumped, .loaded (some (0, 0, 7)), .rebound, .loaded (some (0, 1, 7)),
       .dumpErr .valueError, .loaded (some (0, 1, 7)), .dumped, .loaded (some (0, 1, 9)), .noFile] := by
  decide

/-! ## Non-vacuity: the laws are satisfiable, the hypotheses of `roundtrip` are met by non-trivial instances -/

example : Laws toyEnv where
  unpickle_pickle := by
    intro p _ x
    simp only [toyEnv]
    split <;> simp
  pickle_start := by
    intro p hp x
    simp only [toyEnv]
    split
    · rename_i h2
      simp [isPickleStart, h2, hp]
    · rfl
  magic := by
    intro c hc _ l b
    have := List.all_eq_true.mp (by decide : compressors.all (fun c => lookup c.name == some c) = true) c hc
    simp only [beq_iff_eq] at this
    simp [toyEnv, this]
  inverse := by
    intro c hc _ l b
    have := List.all_eq_true.mp (by decide : compressors.all (fun c => lookup c.name == some c) = true) c hc
    simp only [beq_iff_eq] at this
    simp [toyEnv, this]

example : dumpHeader (.tuple2 (.str "zlib") (.int 3)) (.path "data.gz") = .ok (.codec "zlib" (some 3)) := by rfl
example : dumpHeader (.val (.int 0)) (.path "data.gz") = .ok (.codec "gzip" none) := by rfl
example : dumpHeader (.val (.int 0)) .fileobj = .ok .raw := by rfl
example : dumpHeader (.val (.bool true)) (.path "a.pkl") = .ok (.codec "zlib" none) := by rfl
example : dumpHeader (.tuple2 (.str "bz2") (.int 0)) (.path "a.xz") = .ok .raw := by rfl
example : dumpHeader (.val (.int 10)) .fileobj = .error .valueError := by rfl
example : dumpHeader (.tuple2 .unhashable (.int 3)) .fileobj = .error .typeError := by rfl
example : dumpHeader (.val (.float 3)) (.path "a.bz2") = .error .typeError := by rfl
example : detect [120, 94, 1, 2, 3] = .method "zlib" := by decide
example : detect [128, 4, 149] = .notCompressed := by decide
example : detect [93, 113, 0, 46] = .notCompressed := by decide
example : detect [93, 0, 0, 16, 0] = .method "lzma" := by decide

end C03
