import JoblibProofs.Lemmas.FuncCode
/-!
# C12 — a cached function never returns a value computed by different source code

Statement (properties.jsonl): after a cached function's definition changes — edited between
sessions, redefined under the same name in the same session, or its code object swapped — calls
run the new code rather than returning values cached by the old one, and a still-referenced older
definition keeps returning its own values.  Unchanged code keeps its cache across sessions.

Model: `JoblibModel.FuncCode` — one function identifier in one cache directory: the live function
objects of the current process (each with its current code object), the `MemorizedFunc` wrappers
(each with its cached source, `func_code_info`), the per-process tables `_FUNCTION_HASHES` /
`_FUNC_CODE_WRITERS`, the on-disk `func_code.py` (missing / unreadable / readable-but-garbled / a
source text) and the entries stored beside it; `_check_previous_func_code`, `_write_func_code`,
`clear` as the code has them.  What is compared on disk is the SOURCE TEXT only, exactly (the
`# first line:` comment is stripped; the line number serves the collision warnings).
`Cfg.fixed` is the code WITH fixes/F10-same-name-redefinition.diff (committed) and
fixes/F38-code-swap.diff; `⟨false, _⟩` is the tree before the F10 repair, `⟨true, false⟩` the tree
before the F38 repair.

Quantifier reached: EVERY history (any length) over {execute a `def`/`lambda` creating a new
function object with any source text; wrap a live function once more (`memory.cache(f)` again);
assign ANY code object to a live function's `__code__` (swap, swap back, any number of times);
call / `check_call_in_cache` any live wrapper with any argument; `MemorizedFunc.clear`;
`Memory.clear`; TRUNCATE `func_code.py` at any point of the history (unreadable: cut inside the
header or a multi-byte character; garbled: cut anywhere else); start a fresh process}, every
number of live objects, wrappers and versions, every value function `sem`.
Sessions are sequential.  Not in the model: two processes at once (C11), source texts that do not
determine the behaviour (closures / defaults differing at equal text — outside the domain of the
property), dead function objects leaving `_FUNCTION_HASHES` (weak references).

ONE fault is excluded (`NoDelete`): `func_code.py` DELETED while entries remain (an interrupted
`clear`, or a user): the code then takes the "first use" branch, writes the current source and
keeps the entries — they are served to the edited function (`deleted_func_code_counterexample`,
a known finding: telling "first use" from "file lost" needs a listing the store API does not
have, and wiping on first use would race with concurrent first callers).
-/
namespace C12
open JoblibModel.FuncCode
open JoblibModel.FilterArgs (dget)

variable {R : Type}

/-- **Every call returns the value its own version computes.**  In every history run from an empty
cache directory that never deletes `func_code.py`, every call through a live wrapper whose
function's current code object has source `k`, with argument `a`, returns `sem k a` — whether the
call was served from the cache or executed, whatever other versions of the same-named function were
defined, called, swapped in and out, cleared, or whatever truncation `func_code.py` suffered before,
in this process or in earlier ones (`Correct` at every step: `AllCorrect`). -/
theorem value_from_own_version (sem : Src → Nat → R) (ops : List Op) (hnd : ∀ op ∈ ops, NoDelete op) :
    AllCorrect Cfg.fixed sem (init : State R) ops :=
  allCorrect_of_inv ops _ (inv_init sem) hnd

/-- The same from any state the repaired code can have produced (the invariant `Inv`). -/
theorem value_from_own_version_from (sem : Src → Nat → R) (st : State R) (hi : Inv sem st)
    (ops : List Op) (hnd : ∀ op ∈ ops, NoDelete op) : AllCorrect Cfg.fixed sem st ops :=
  allCorrect_of_inv ops st hi hnd

/-- … and every reachable state has that invariant. -/
theorem reachable_inv (sem : Src → Nat → R) (ops : List Op) (hnd : ∀ op ∈ ops, NoDelete op) :
    Inv sem (exec Cfg.fixed sem (init : State R) ops) :=
  inv_exec ops _ (inv_init sem) hnd

/-- **Unchanged code keeps its cache.**  Take any history `pre` and `mid` in which every definition
and every swapped-in code object has the one source text `k` and nothing is cleared or damaged
(`Quiet k`: any number of re-executions of the same `def`, further wrappers, swaps between code
objects of that text, fresh processes, calls and checks with any arguments).  If a wrapper `w` is
called with `a` after `pre`, then after `mid` a call of ANY live wrapper `w'` (same process or a later
one) with `a` is served from the cache: the body is not executed, the value is `sem k a`, and the
stored code and entries are left exactly as they were. -/
theorem unchanged_code_keeps_cache (sem : Src → Nat → R) (k : Src) (pre mid : List Op) (w w' : Nat)
    (a : Nat) (hpre : ∀ op ∈ pre, Quiet k op) (hmid : ∀ op ∈ mid, Quiet k op)
    (hlive : (lookup (exec Cfg.fixed sem (init : State R) pre) w).isSome)
    (hlive' : (lookup (exec Cfg.fixed sem (init : State R) (pre ++ .call w a :: mid)) w').isSome) :
    let st := exec Cfg.fixed sem (init : State R) (pre ++ .call w a :: mid)
    (step Cfg.fixed sem st (.call w' a)).1 = .value (sem k a) false ∧
      (step Cfg.fixed sem st (.call w' a)).2.entries = st.entries ∧
      (step Cfg.fixed sem st (.call w' a)).2.code = st.code := by
  intro st
  have nd : ∀ {l : List Op}, (∀ op ∈ l, Quiet k op) → ∀ op ∈ l, NoDelete op :=
    fun h op ho => quiet_noDelete (h op ho)
  have hi0 := inv_exec (sem := sem) pre _ (inv_init sem) (nd hpre)
  obtain ⟨hs0, _⟩ := quiet_exec (sem := sem) pre _ (inv_init sem) (allSrc_init k) hpre
  -- the call of `w` after `pre`
  have hi1 := (step_spec hi0 (.call w a) trivial).1
  obtain ⟨hs1, _⟩ := quiet_step hi0 hs0 (op := .call w a) trivial
  cases hl : lookup (exec Cfg.fixed sem init pre) w with
  | none => rw [hl] at hlive; cases hlive
  | some p =>
    obtain ⟨o, cur, named, ic⟩ := p
    have hk : cur.2 = k := hs0.1 o cur named (lookup_live hl)
    have hent : dget a (step Cfg.fixed sem (exec Cfg.fixed sem init pre) (.call w a)).2.entries
        = some (sem k a) := by
      have hc := (step_spec hi0 (.call w a) trivial).2
      simp only [Correct, hl, hk] at hc
      simp only [step, hl, isInCache] at hc ⊢
      cases hr : (if (checkPrevious Cfg.fixed (exec Cfg.fixed sem init pre) w o cur named ic).1 = true then
          dget a (checkPrevious Cfg.fixed (exec Cfg.fixed sem init pre) w o cur named ic).2.entries
          else none) with
      | some v =>
        simp only [hr] at hc ⊢
        rcases hc with hc | hc
        · simp only [Out.value.injEq, and_true] at hc
          subst hc
          split at hr
          · exact hr
          · cases hr
        · simp at hc
      | none =>
        simp only [hk]
        exact JoblibModel.FilterArgs.dget_dset_self _ _ _
    -- `mid`
    obtain ⟨hs2, keep⟩ := quiet_exec (sem := sem) mid _ hi1 hs1 hmid
    have hex : st = exec Cfg.fixed sem (step Cfg.fixed sem (exec Cfg.fixed sem init pre) (.call w a)).2 mid := by
      show exec Cfg.fixed sem init (pre ++ .call w a :: mid) = _
      rw [exec_append]; rfl
    have hi2 : Inv sem st := by rw [hex]; exact inv_exec (sem := sem) mid _ hi1 (nd hmid)
    have he2 : dget a st.entries = some (sem k a) := by rw [hex]; exact keep a _ hent
    have hs2' : AllSrc k st := by rw [hex]; exact hs2
    cases hl' : lookup st w' with
    | none => rw [hl'] at hlive'; cases hlive'
    | some p' =>
      obtain ⟨o', cur', named', ic'⟩ := p'
      have hk' : cur'.2 = k := hs2'.1 o' cur' named' (lookup_live hl')
      have hc2 : st.code = .ok cur'.2 := by
        rcases hs2'.2 with hm | ho
        · rw [(hi2.missing hm).1] at he2; simp [dget] at he2
        · rw [hk']; exact ho
      exact call_hit hi2 hl' hc2 he2

/-- The step-level fact behind it, from any state with the invariant: stored code = the current
code's source and the entry present ⇒ hit, nothing executed, code and entries unchanged. -/
theorem hit_when_code_unchanged (sem : Src → Nat → R) (st : State R) (hi : Inv sem st) (w : Nat)
    (o : Obj) (cur : CodeId) (n : Bool) (ic : InfoCache) (a : Nat) (r : R)
    (hl : lookup st w = some (o, cur, n, ic)) (hc : st.code = .ok cur.2)
    (he : dget a st.entries = some r) :
    (step Cfg.fixed sem st (.call w a)).1 = .value r false ∧
      (step Cfg.fixed sem st (.call w a)).2.entries = st.entries ∧
      (step Cfg.fixed sem st (.call w a)).2.code = st.code :=
  call_hit hi hl hc he

/-! ## Non-vacuity: a history with two live versions, swaps there and back, two wrappers of one
function, truncated `func_code.py`, a fresh process and a clear -/

/-- versions 1 and 2 of `f` return `(version, arg)` -/
def semEx : Src → Nat → Nat × Nat := fun k a => (k, a)

def histEx : List Op :=
  [.define 1 1 true, .call 1 7, .define 2 2 true, .call 2 7, .call 1 7, .check 2 7, .call 2 7,
   .swap 1 (2, 2), .call 1 7, .swap 1 (1, 1), .call 1 7, .wrap 5 1, .call 5 7,
   .damage .unreadable, .call 2 7, .call 2 7, .fresh, .define 3 1 true, .damage .other, .call 3 7,
   .clearFn 3, .call 3 7]

example : run Cfg.fixed semEx init histEx =
    [.done, .value (1, 7) true, .done, .value (2, 7) true, .value (1, 7) true, .flag false,
     .value (2, 7) true, .done, .value (2, 7) false, .done, .value (1, 7) true, .done, .value (1, 7) false,
     .done, .value (2, 7) true, .value (2, 7) false, .done, .done, .done, .value (1, 7) true, .done,
     .value (1, 7) true] := by decide

example : ∀ op ∈ histEx, NoDelete op := by decide

example : ∀ op ∈ [Op.define 1 5 true, .call 1 0, .swap 1 (9, 5), .fresh, .define 2 5 true, .wrap 3 2,
    .check 3 0], Quiet 5 op := by decide

/-! ## F38 — `func_code_info` before the repair -/

/-- F38: `f.__code__ = A.__code__; cf(0)`, `f.__code__ = B.__code__; cf(0)`,
`f.__code__ = A.__code__; cf(0)` returns B's value the third time: `_func_code_id` keeps the first
code object ever seen (A's), so after the swap back the cached source (B's, read at the second
call) is not refreshed, matches the stored code and B's entry is served. -/
theorem old_F38_counterexample :
    run ⟨true, false⟩ semEx init
        [.define 1 9 true, .swap 1 (100, 1), .call 1 0, .swap 1 (101, 2), .call 1 0,
         .swap 1 (100, 1), .call 1 0] =
      [.done, .done, .value (1, 0) true, .done, .value (2, 0) true, .done, .value (2, 0) false] := by
  decide

/-- The same through two wrappers of one function: wrapper 1 goes A, B, back to A; after a
`Memory.clear()` it writes its STALE cached source (B's) into `func_code.py` while the function runs
A's code and stores A's value; the function then gets B's code again and wrapper 2 (whose own cache
is right) finds "its" source on disk and is served A's value. -/
theorem old_F38_two_wrappers_counterexample :
    run ⟨true, false⟩ semEx init
        [.define 1 1 true, .wrap 2 1, .call 1 0, .swap 1 (101, 2), .call 1 0, .swap 1 (1, 1),
         .clearAll, .call 1 0, .swap 1 (101, 2), .call 2 0] =
      [.done, .done, .value (1, 0) true, .done, .value (2, 0) true, .done, .done, .value (1, 0) true,
       .done, .value (1, 0) false] := by
  decide

theorem old_F38_value_from_own_version_false :
    ¬ ∀ ops : List Op, (∀ op ∈ ops, NoDelete op) →
        AllCorrect ⟨true, false⟩ semEx (init : State (Nat × Nat)) ops := by
  intro h
  exact absurd (h [.define 1 9 true, .swap 1 (100, 1), .call 1 0, .swap 1 (101, 2), .call 1 0,
    .swap 1 (100, 1), .call 1 0] (by decide)) (by decide)

/-- The repaired code on the two histories. -/
theorem fixed_on_the_F38_witnesses :
    run Cfg.fixed semEx init
        [.define 1 9 true, .swap 1 (100, 1), .call 1 0, .swap 1 (101, 2), .call 1 0,
         .swap 1 (100, 1), .call 1 0] =
      [.done, .done, .value (1, 0) true, .done, .value (2, 0) true, .done, .value (1, 0) true] ∧
    run Cfg.fixed semEx init
        [.define 1 1 true, .wrap 2 1, .call 1 0, .swap 1 (101, 2), .call 1 0, .swap 1 (1, 1),
         .clearAll, .call 1 0, .swap 1 (101, 2), .call 2 0] =
      [.done, .done, .value (1, 0) true, .done, .value (2, 0) true, .done, .done, .value (1, 0) true,
       .done, .value (2, 0) true] := by
  decide

/-! ## `func_code.py` deleted while entries remain (known finding) -/

/-- Version 1 caches arguments 0 and 1; `func_code.py` is deleted; in a fresh process the EDITED
function (version 2) is called with both: the first call takes the "no func_code.py" branch (writes
the new source, recomputes), the second is then served version 1's value. -/
theorem deleted_func_code_counterexample :
    run Cfg.fixed semEx init
        [.define 1 1 true, .call 1 0, .call 1 1, .damage .delete, .fresh, .define 2 2 true,
         .call 2 0, .call 2 1] =
      [.done, .value (1, 0) true, .value (1, 1) true, .done, .done, .done, .value (2, 0) true,
       .value (1, 1) false] := by
  decide

/-- A truncated (unreadable or garbled) file in the same place is handled: everything is recomputed. -/
theorem truncated_func_code_witness :
    run Cfg.fixed semEx init
        [.define 1 1 true, .call 1 0, .call 1 1, .damage .unreadable, .fresh, .define 2 2 true,
         .call 2 0, .call 2 1] =
      [.done, .value (1, 0) true, .value (1, 1) true, .done, .done, .done, .value (2, 0) true,
       .value (2, 1) true] ∧
    run Cfg.fixed semEx init
        [.define 1 1 true, .call 1 0, .call 1 1, .damage .other, .fresh, .define 2 2 true,
         .call 2 0, .call 2 1] =
      [.done, .value (1, 0) true, .value (1, 1) true, .done, .done, .done, .value (2, 0) true,
       .value (2, 1) true] := by
  decide

/-! ## F10 — the tree before fixes/F10-same-name-redefinition.diff -/

/-- F10: `f` v1 is defined and cached, `f` v2 is defined under the same name and cached; the calls
`c1(1), c2(1), c1(1)` return `(1,1), (2,1), (2,1)`: the third call is answered by the
`_FUNCTION_HASHES` shortcut with the entry version 2 stored. -/
theorem old_F10_counterexample :
    run ⟨false, true⟩ semEx init [.define 1 1 true, .define 2 2 true, .call 1 1, .call 2 1, .call 1 1] =
      [.done, .done, .value (1, 1) true, .value (2, 1) true, .value (2, 1) false] := by decide

/-- The first theorem is false of that tree. -/
theorem old_value_from_own_version_false :
    ¬ ∀ ops : List Op, (∀ op ∈ ops, NoDelete op) →
        AllCorrect ⟨false, true⟩ semEx (init : State (Nat × Nat)) ops := by
  intro h
  exact absurd (h [.define 1 1 true, .define 2 2 true, .call 1 1, .call 2 1, .call 1 1] (by decide))
    (by decide)

/-- A second shape of F10 (through `check_call_in_cache`). -/
theorem old_F10_check_counterexample :
    run ⟨false, true⟩ semEx init
        [.define 1 1 true, .define 2 2 true, .call 1 1, .check 2 1, .call 1 1, .call 2 1] =
      [.done, .done, .value (1, 1) true, .flag false, .value (1, 1) true, .value (1, 1) false] := by
  decide

/-- The repaired code on the same two histories. -/
theorem fixed_on_the_witnesses :
    run Cfg.fixed semEx init [.define 1 1 true, .define 2 2 true, .call 1 1, .call 2 1, .call 1 1] =
      [.done, .done, .value (1, 1) true, .value (2, 1) true, .value (1, 1) true] ∧
    run Cfg.fixed semEx init
        [.define 1 1 true, .define 2 2 true, .call 1 1, .check 2 1, .call 1 1, .call 2 1] =
      [.done, .done, .value (1, 1) true, .flag false, .value (1, 1) true, .value (2, 1) true] := by
  decide

end C12
