import JoblibProofs.Lemmas.FuncCode
import JoblibProofs.Lemmas.FuncCodeText
import JoblibProofs.Lemmas.FuncCodeFault
/-!
# C12 — a cached function never returns a value computed by different source code

Statement (properties.jsonl): after a cached function's definition changes — edited between
sessions, redefined under the same name in the same session, or its code object swapped — calls
run the new code rather than returning values cached by the old one, and a still-referenced older
definition keeps returning its own values.  Unchanged code keeps its cache across sessions.

Model: `JoblibModel.FuncCode` — one function identifier cached in ANY NUMBER of cache locations
(several `Memory` objects, on different directories or on the same one): the live function objects
of the current process (each with its current code object), the `MemorizedFunc` wrappers (each
belongs to one location — the string `store_backend.location` and the directory it denotes — and
has its cached source, `func_code_info`), the PROCESS-GLOBAL tables `_FUNCTION_HASHES` (keyed by
the function object alone) and `_FUNC_CODE_WRITERS` (keyed by the location string), and per
directory the on-disk `func_code.py` (missing / unreadable / readable-but-garbled / a source text)
and the entries stored beside it; `_check_previous_func_code`, `_write_func_code`, `clear`,
`Memory.clear` as the code has them.  What is compared on disk is the SOURCE TEXT only, exactly
(the `# first line:` comment is stripped; the line number serves the collision warnings).
`Cfg.fixed` is the code as it is in the tree (WITH fixes/F10-same-name-redefinition.diff and
fixes/F38-code-swap.diff); `{ Cfg.fixed with writerCheck := false }` is the tree before the F10
repair, `{ … infoIdUpdate := false }` the tree before the F38 repair, `{ … writerKeyHasLocation :=
false }` a seeded regression (`writer_key = self.func_id`), `Cfg.resolved` the tree with the
candidate repair fixes/F46-writer-key-realpath.diff.

Quantifier reached: EVERY history (any length) over {execute a `def`/`lambda` creating a new
function object with any source text, cached at any location; wrap a live function once more
(`memory.cache(f)` again) with a `Memory` object of ANY location — the same function object may be
cached at several; assign ANY code object to a live function's `__code__` (swap, swap back, any
number of times); call / `check_call_in_cache` any live wrapper with any argument;
`MemorizedFunc.clear`; `Memory.clear` of any location; TRUNCATE `func_code.py` of any location at
any point of the history (unreadable: cut inside the header or a multi-byte character; garbled: cut
anywhere else); start a fresh process}, every number of locations, live objects, wrappers and
versions, every value function `sem`.
Sessions are sequential.  Not in the model: two processes at once (C11), source texts that do not
determine the behaviour (closures / defaults differing at equal text — outside the domain of the
property), dead function objects leaving `_FUNCTION_HASHES` (weak references), one location string
denoting two directories in one process (a relative path and `os.chdir`).

TWO exclusions:
* `NoDelete`: `func_code.py` DELETED while entries remain (an interrupted `clear`, or a user): the
  code then takes the "first use" branch, writes the current source and keeps the entries — they
  are served to the edited function (`deleted_func_code_counterexample`, a known finding, F39).
* `Canonical` (F46, new; only for the tree as it is, not for `Cfg.resolved`): every directory is
  addressed under ONE spelling.  `_FUNC_CODE_WRITERS` is keyed by the location STRING: with
  `Memory(d)` and `Memory(d + "/.")` in one process the write of one does not pop the writer entry of
  the other, and the F10 failure is back (`aliased_location_counterexample`).  With the writer key
  resolved to the directory the theorem holds without this hypothesis
  (`value_from_own_version_resolved`).
-/
namespace C12
open JoblibModel.FuncCode
open JoblibModel.FilterArgs (dget)

variable {R : Type}

/-- **Every call returns the value its own version computes — at every location.**  In every
history run from empty cache directories that never deletes a `func_code.py` and addresses every
directory under one spelling, every call through a live wrapper — of whatever `Memory` object, at
whatever location — whose function's current code object has source `k`, with argument `a`, returns
`sem k a` — whether the call was served from the cache or executed, whatever other versions of the
same-named function were defined, called, swapped in and out, cleared, at this location or at any
other, or whatever truncation any `func_code.py` suffered before, in this process or in earlier
ones (`Correct` at every step: `AllCorrect`). -/
theorem value_from_own_version (sem : Src → Nat → R) (ops : List Op) (hnd : ∀ op ∈ ops, NoDelete op)
    (hcan : ∀ op ∈ ops, Canonical op) :
    AllCorrect Cfg.fixed sem (init : State R) ops :=
  allCorrect_of_inv good_fixed ops _ (inv_init _ sem) hnd fun op h => keyOK_of_canonical (hcan op h)

/-- The same from any state the repaired code can have produced (the invariant `Inv`). -/
theorem value_from_own_version_from (sem : Src → Nat → R) (st : State R) (hi : Inv Cfg.fixed sem st)
    (ops : List Op) (hnd : ∀ op ∈ ops, NoDelete op) (hcan : ∀ op ∈ ops, Canonical op) :
    AllCorrect Cfg.fixed sem st ops :=
  allCorrect_of_inv good_fixed ops st hi hnd fun op h => keyOK_of_canonical (hcan op h)

/-- … and every reachable state has that invariant. -/
theorem reachable_inv (sem : Src → Nat → R) (ops : List Op) (hnd : ∀ op ∈ ops, NoDelete op)
    (hcan : ∀ op ∈ ops, Canonical op) :
    Inv Cfg.fixed sem (exec Cfg.fixed sem (init : State R) ops) :=
  inv_exec good_fixed ops _ (inv_init _ sem) hnd fun op h => keyOK_of_canonical (hcan op h)

/-- With the candidate repair of F46 (the writer key is the resolved directory) the first theorem
needs no hypothesis on how the directories are spelled. -/
theorem value_from_own_version_resolved (sem : Src → Nat → R) (ops : List Op)
    (hnd : ∀ op ∈ ops, NoDelete op) : AllCorrect Cfg.resolved sem (init : State R) ops :=
  allCorrect_of_inv good_resolved ops _ (inv_init _ sem) hnd fun op _ => keyOK_resolved op

/-- **Unchanged code keeps its cache, at every location.**  Fix a directory `d`.  Take any history
`pre` and `mid` in which every definition and every swapped-in code object has the one source text
`k` and nothing is cleared or damaged AT `d` (`QuietAt k d`: any number of re-executions of the same
`def`, further wrappers at any location, swaps between code objects of that text, fresh processes,
calls and checks with any arguments at any location — and, at OTHER locations, `Memory.clear()` and
truncated `func_code.py` files).  If a wrapper `w` at `d` is called with `a` after `pre`, then after
`mid` a call of ANY live wrapper `w'` at `d` (same process or a later one) with `a` is served from
the cache: the body is not executed, the value is `sem k a`, and no directory is written to. -/
theorem unchanged_code_keeps_cache (sem : Src → Nat → R) (k : Src) (d : Loc) (pre mid : List Op)
    (w w' : Nat) (a : Nat) (hpre : ∀ op ∈ pre, QuietAt k d op) (hmid : ∀ op ∈ mid, QuietAt k d op)
    (hlive : ∃ t, lookup (exec Cfg.fixed sem (init : State R) pre) w = some t ∧ t.dir = d)
    (hlive' : ∃ t, lookup (exec Cfg.fixed sem (init : State R) (pre ++ .call w a :: mid)) w' = some t ∧
      t.dir = d) :
    let st := exec Cfg.fixed sem (init : State R) (pre ++ .call w a :: mid)
    (step Cfg.fixed sem st (.call w' a)).1 = .value (sem k a) false ∧
      (step Cfg.fixed sem st (.call w' a)).2.disk = st.disk := by
  intro st
  obtain ⟨t, hl, hd⟩ := hlive
  obtain ⟨t', hl', hd'⟩ := hlive'
  have nd : ∀ {l : List Op}, (∀ op ∈ l, QuietAt k d op) → ∀ op ∈ l, NoDelete op :=
    fun h op ho => quiet_noDelete (h op ho)
  have cn : ∀ {l : List Op}, (∀ op ∈ l, QuietAt k d op) → ∀ op ∈ l, KeyOK Cfg.fixed op :=
    fun h op ho => keyOK_of_canonical (quiet_canonical (h op ho))
  have hi0 := inv_exec good_fixed (sem := sem) pre _ (inv_init _ sem) (nd hpre) (cn hpre)
  obtain ⟨hs0, _⟩ := quiet_exec (sem := sem) pre _ (inv_init _ sem) (allSrc_init k d) hpre
  -- the call of `w` after `pre`
  have hi1 := (step_spec good_fixed hi0 (.call w a) trivial trivial).1
  obtain ⟨hs1, _⟩ := quiet_step good_fixed hi0 hs0 (op := .call w a) trivial
  have hk : t.cur.2 = k := hs0.1 t.o t.cur t.named (lookup_live hl)
  have hent : dget a (dirAt (step Cfg.fixed sem (exec Cfg.fixed sem init pre) (.call w a)).2 d).entries
      = some (sem k a) := by
    have hc := (step_spec good_fixed hi0 (.call w a) trivial trivial).2
    simp only [Correct, hl, hk] at hc
    simp only [step, hl, isInCache] at hc ⊢
    cases hr : (if (checkPrevious Cfg.fixed (exec Cfg.fixed sem init pre) t).1 = true then
        dget a (dirAt (checkPrevious Cfg.fixed (exec Cfg.fixed sem init pre) t).2 t.dir).entries
        else none) with
    | some v =>
      simp only [hr] at hc ⊢
      rcases hc with hc | hc
      · simp only [Out.value.injEq, and_true] at hc
        subst hc
        split at hr
        · rw [← hd]; exact hr
        · cases hr
      · simp at hc
    | none =>
      simp only [hk, ← hd]
      simp [dirAt, JoblibModel.FilterArgs.dget_dset_self]
  -- `mid`
  obtain ⟨hs2, keep⟩ := quiet_exec (sem := sem) mid _ hi1 hs1 hmid
  have hex : st = exec Cfg.fixed sem (step Cfg.fixed sem (exec Cfg.fixed sem init pre) (.call w a)).2 mid := by
    show exec Cfg.fixed sem init (pre ++ .call w a :: mid) = _
    rw [exec_append]; rfl
  have hi2 : Inv Cfg.fixed sem st := by
    rw [hex]; exact inv_exec good_fixed (sem := sem) mid _ hi1 (nd hmid) (cn hmid)
  have he2 : dget a (dirAt st d).entries = some (sem k a) := by rw [hex]; exact keep a _ hent
  have hs2' : AllSrc k d st := by rw [hex]; exact hs2
  have hk' : t'.cur.2 = k := hs2'.1 t'.o t'.cur t'.named (lookup_live hl')
  have hc2 : (dirAt st t'.dir).code = .ok t'.cur.2 := by
    rw [hd']
    rcases hs2'.2 with hm | ho
    · have := ((hi2.dirs d).missing hm).1
      simp only [cell] at this
      rw [this] at he2; simp [dget] at he2
    · rw [hk']; exact ho
  exact call_hit good_fixed hi2 hl' hc2 (by rw [hd']; exact he2)

/-- The step-level fact behind it, from any state with the invariant: stored code of the wrapper's
location = the current code's source and the entry present there ⇒ hit, nothing executed, no
directory written to. -/
theorem hit_when_code_unchanged (sem : Src → Nat → R) (st : State R) (hi : Inv Cfg.fixed sem st)
    (w : Nat) (t : Target) (a : Nat) (r : R)
    (hl : lookup st w = some t) (hc : (dirAt st t.dir).code = .ok t.cur.2)
    (he : dget a (dirAt st t.dir).entries = some r) :
    (step Cfg.fixed sem st (.call w a)).1 = .value r false ∧
      (step Cfg.fixed sem st (.call w a)).2.disk = st.disk :=
  call_hit good_fixed hi hl hc he

/-- **Locations are independent.**  A step that works on another directory — a call, check or
`clear` through a wrapper of another location, `Memory.clear()` or a fault there — or on none
(definitions, wrappers, swaps, a fresh process) leaves directory `d` exactly as it was:
`func_code.py` and every entry.  For EVERY version of the code (`cfg` arbitrary) and every state. -/
theorem locations_independent (cfg : Cfg) (sem : Src → Nat → R) (st : State R) (op : Op) (d : Loc)
    (h : opDir st op ≠ some d) :
    (dirAt (step cfg sem st op).2 d).code = (dirAt st d).code ∧
      (dirAt (step cfg sem st op).2 d).entries = (dirAt st d).entries := by
  rw [step_frame cfg sem st op d h]; exact ⟨rfl, rfl⟩

/-- **The in-memory shortcut answers only for a directory that is this function's own** (the
invariant the F10 repair established, now per location).  In every reachable state, whenever the
`_FUNCTION_HASHES` / `_FUNC_CODE_WRITERS` branch of `_check_previous_func_code` answers True for a
live wrapper `w` — at whatever location `w` caches —, `func_code.py` of THAT location is present,
holds, if it still reads back as a source text at all (it may have been truncated since), the source
of `w`'s function's current code object, and every entry stored at that location is the value this
source computes. -/
theorem shortcut_implies_directory_is_own (sem : Src → Nat → R) (ops : List Op)
    (hnd : ∀ op ∈ ops, NoDelete op) (hcan : ∀ op ∈ ops, Canonical op) (w : Nat) (t : Target) :
    let st := exec Cfg.fixed sem (init : State R) ops
    lookup st w = some t → shortcut Cfg.fixed st t = true →
      (dirAt st t.dir).code ≠ .missing ∧ (∀ s, (dirAt st t.dir).code = .ok s → s = t.cur.2) ∧
        ∀ a r, dget a (dirAt st t.dir).entries = some r → r = sem t.cur.2 a := by
  intro st hl hs
  have hi := reachable_inv sem ops hnd hcan
  have hp := shortcut_post good_fixed hi (lookup_tok hi hl).2 hs
  exact ⟨hp.present, hp.code, hp.vals⟩

/-- … and when `func_code.py` of that location was not truncated in the history, it holds exactly
this function's own current source. -/
theorem shortcut_implies_stored_code_is_own (sem : Src → Nat → R) (ops : List Op)
    (hnd : ∀ op ∈ ops, NoDelete op) (hcan : ∀ op ∈ ops, Canonical op) (w : Nat) (t : Target)
    (hdam : ∀ op ∈ ops, NoDamageAt t.dir op) :
    let st := exec Cfg.fixed sem (init : State R) ops
    lookup st w = some t → shortcut Cfg.fixed st t = true →
      (dirAt st t.dir).code = .ok t.cur.2 := by
  intro st hl hs
  obtain ⟨h1, h2, _⟩ := shortcut_implies_directory_is_own sem ops hnd hcan w t hl hs
  rcases intact_exec Cfg.fixed sem t.dir ops _ (intact_init t.dir) hdam with hm | ⟨s, ho⟩
  · exact absurd hm h1
  · rw [ho, h2 s ho]

/-! ## Non-vacuity: a history with two live versions, swaps there and back, two wrappers of one
function, truncated `func_code.py`, a fresh process and a clear; then the same function object at
two locations, a `Memory.clear()` and a fault at one of them -/

/-- versions 1 and 2 of `f` return `(version, arg)` -/
def semEx : Src → Nat → Nat × Nat := fun k a => (k, a)

def histEx : List Op :=
  [.define 1 1 true 0, .call 1 7, .define 2 2 true 0, .call 2 7, .call 1 7, .check 2 7, .call 2 7,
   .swap 1 (2, 2), .call 1 7, .swap 1 (1, 1), .call 1 7, .wrap 5 1 0 0, .call 5 7,
   .damage 0 .unreadable, .call 2 7, .call 2 7, .fresh, .define 3 1 true 0, .damage 0 .other, .call 3 7,
   .clearFn 3, .call 3 7]

example : run Cfg.fixed semEx init histEx =
    [.done, .value (1, 7) true, .done, .value (2, 7) true, .value (1, 7) true, .flag false,
     .value (2, 7) true, .done, .value (2, 7) false, .done, .value (1, 7) true, .done, .value (1, 7) false,
     .done, .value (2, 7) true, .value (2, 7) false, .done, .done, .done, .value (1, 7) true, .done,
     .value (1, 7) true] := by decide

example : ∀ op ∈ histEx, NoDelete op := by decide
example : ∀ op ∈ histEx, Canonical op := by decide

/-- Function 1 (version 1) is cached at locations 0 and 1 (wrappers 1 and 5), function 2 (version 2)
at location 1 (wrapper 2) and, later, at location 0 (wrapper 6).  Location 1 changes hands twice;
location 0 keeps version 1's entry through all of it, through `Memory.clear()` of location 1 and
through a truncated `func_code.py` there — until version 2 is called at location 0 as well. -/
def histMulti : List Op :=
  [.define 1 1 true 0, .wrap 5 1 1 1, .call 1 7, .call 5 7, .define 2 2 true 1, .call 2 7, .call 5 7,
   .call 1 7, .clearAll 1, .call 1 7, .call 5 7, .damage 1 .other, .call 5 7, .call 1 7, .fresh,
   .define 3 1 true 0, .call 3 7, .wrap 6 3 1 1, .call 6 7, .define 4 2 true 0, .call 4 7, .call 3 7,
   .call 6 7]

example : run Cfg.fixed semEx init histMulti =
    [.done, .done, .value (1, 7) true, .value (1, 7) true, .done, .value (2, 7) true, .value (1, 7) true,
     .value (1, 7) false, .done, .value (1, 7) false, .value (1, 7) true, .done, .value (1, 7) false,
     .value (1, 7) false, .done, .done, .value (1, 7) false, .done, .value (1, 7) true, .done,
     .value (2, 7) true, .value (1, 7) true, .value (1, 7) false] := by decide

example : ∀ op ∈ histMulti, NoDelete op := by decide
example : ∀ op ∈ histMulti, Canonical op := by decide

example : ∀ op ∈ [Op.define 1 5 true 0, .call 1 0, .swap 1 (9, 5), .wrap 4 1 1 1, .call 4 0, .clearAll 1,
    .damage 2 .other, .fresh, .define 2 5 true 1, .wrap 3 2 0 0, .check 3 0], QuietAt 5 0 op := by decide

/-- The shortcut does answer True in such histories (second call of wrapper 1), also for a function
object cached at two locations (wrapper 5, second call). -/
example :
    let st := exec Cfg.fixed semEx (init : State (Nat × Nat))
      [.define 1 1 true 0, .wrap 5 1 1 1, .call 1 7, .call 5 7]
    (lookup st 1).map (shortcut Cfg.fixed st) = some true ∧
      (lookup st 5).map (shortcut Cfg.fixed st) = some true := by decide

/-! ## the writer key without the location (a seeded regression) -/

/-- `writer_key = self.func_id`: version 1 is cached at location 1 (argument 3); the file is edited;
in the next session version 2 is called through a `Memory` at location 0, then through one at
location 1 — and is served version 1's value there: the writer slot filled at location 0 answers
for location 1, whose `func_code.py` is never read. -/
theorem writer_key_without_location_counterexample :
    run { Cfg.fixed with writerKeyHasLocation := false } semEx init
        [.define 1 1 true 1, .call 1 3, .fresh, .define 2 2 true 0, .wrap 5 2 1 1, .call 2 3, .call 5 3] =
      [.done, .value (1, 3) true, .done, .done, .done, .value (2, 3) true, .value (1, 3) false] := by
  decide

/-- The same in one process (the module re-imported: both definitions alive). -/
theorem writer_key_without_location_one_process_counterexample :
    run { Cfg.fixed with writerKeyHasLocation := false } semEx init
        [.define 1 1 true 1, .call 1 3, .define 2 2 true 0, .wrap 5 2 1 1, .call 2 3, .call 5 3] =
      [.done, .value (1, 3) true, .done, .done, .value (2, 3) true, .value (1, 3) false] := by
  decide

theorem writer_key_without_location_value_from_own_version_false :
    ¬ ∀ ops : List Op, (∀ op ∈ ops, NoDelete op) → (∀ op ∈ ops, Canonical op) →
        AllCorrect { Cfg.fixed with writerKeyHasLocation := false } semEx (init : State (Nat × Nat)) ops := by
  intro h
  exact absurd (h [.define 1 1 true 1, .call 1 3, .fresh, .define 2 2 true 0, .wrap 5 2 1 1, .call 2 3,
    .call 5 3] (by decide) (by decide)) (by decide)

/-- The code as it is, on the two histories. -/
theorem fixed_on_the_writer_key_witnesses :
    run Cfg.fixed semEx init
        [.define 1 1 true 1, .call 1 3, .fresh, .define 2 2 true 0, .wrap 5 2 1 1, .call 2 3, .call 5 3] =
      [.done, .value (1, 3) true, .done, .done, .done, .value (2, 3) true, .value (2, 3) true] ∧
    run Cfg.fixed semEx init
        [.define 1 1 true 1, .call 1 3, .define 2 2 true 0, .wrap 5 2 1 1, .call 2 3, .call 5 3] =
      [.done, .value (1, 3) true, .done, .done, .value (2, 3) true, .value (2, 3) true] := by
  decide

/-! ## F46 — one directory under two spellings (the tree as it is) -/

/-- F46: `Memory(d)` and `Memory(d + "/.")` (location strings 1 and 9 of directory 1).  Version 1 is
cached through the first, the same-named version 2 through the second; the calls
`c1(1), c2(1), c1(1)` return `(1,1), (2,1), (2,1)`: version 2's write popped the writer entry of
string 9, not that of string 1, so version 1's shortcut still answers True — F10 again. -/
theorem aliased_location_counterexample :
    run Cfg.fixed semEx init
        [.define 1 1 true 1, .define 2 2 true 7, .wrap 5 2 9 1, .call 1 1, .call 5 1, .call 1 1] =
      [.done, .done, .done, .value (1, 1) true, .value (2, 1) true, .value (2, 1) false] := by
  decide

/-- Without `Canonical` the first theorem is false of the tree as it is. -/
theorem aliased_location_value_from_own_version_false :
    ¬ ∀ ops : List Op, (∀ op ∈ ops, NoDelete op) →
        AllCorrect Cfg.fixed semEx (init : State (Nat × Nat)) ops := by
  intro h
  exact absurd (h [.define 1 1 true 1, .define 2 2 true 7, .wrap 5 2 9 1, .call 1 1, .call 5 1, .call 1 1]
    (by decide)) (by decide)

/-- With the writer key resolved to the directory (the candidate repair) the same history is right. -/
theorem resolved_on_the_aliased_witness :
    run Cfg.resolved semEx init
        [.define 1 1 true 1, .define 2 2 true 7, .wrap 5 2 9 1, .call 1 1, .call 5 1, .call 1 1] =
      [.done, .done, .done, .value (1, 1) true, .value (2, 1) true, .value (1, 1) true] := by
  decide

/-! ## F38 — `func_code_info` before the repair -/

/-- The tree before the F38 repair. -/
def cfgF38 : Cfg := { Cfg.fixed with infoIdUpdate := false }

/-- The tree before the F10 repair. -/
def cfgF10 : Cfg := { Cfg.fixed with writerCheck := false }

/-- F38: `f.__code__ = A.__code__; cf(0)`, `f.__code__ = B.__code__; cf(0)`,
`f.__code__ = A.__code__; cf(0)` returns B's value the third time: `_func_code_id` keeps the first
code object ever seen (A's), so after the swap back the cached source (B's, read at the second
call) is not refreshed, matches the stored code and B's entry is served. -/
theorem old_F38_counterexample :
    run cfgF38 semEx init
        [.define 1 9 true 0, .swap 1 (100, 1), .call 1 0, .swap 1 (101, 2), .call 1 0,
         .swap 1 (100, 1), .call 1 0] =
      [.done, .done, .value (1, 0) true, .done, .value (2, 0) true, .done, .value (2, 0) false] := by
  decide

/-- The same through two wrappers of one function: wrapper 1 goes A, B, back to A; after a
`Memory.clear()` it writes its STALE cached source (B's) into `func_code.py` while the function runs
A's code and stores A's value; the function then gets B's code again and wrapper 2 (whose own cache
is right) finds "its" source on disk and is served A's value. -/
theorem old_F38_two_wrappers_counterexample :
    run cfgF38 semEx init
        [.define 1 1 true 0, .wrap 2 1 0 0, .call 1 0, .swap 1 (101, 2), .call 1 0, .swap 1 (1, 1),
         .clearAll 0, .call 1 0, .swap 1 (101, 2), .call 2 0] =
      [.done, .done, .value (1, 0) true, .done, .value (2, 0) true, .done, .done, .value (1, 0) true,
       .done, .value (1, 0) false] := by
  decide

theorem old_F38_value_from_own_version_false :
    ¬ ∀ ops : List Op, (∀ op ∈ ops, NoDelete op) → (∀ op ∈ ops, Canonical op) →
        AllCorrect cfgF38 semEx (init : State (Nat × Nat)) ops := by
  intro h
  exact absurd (h [.define 1 9 true 0, .swap 1 (100, 1), .call 1 0, .swap 1 (101, 2), .call 1 0,
    .swap 1 (100, 1), .call 1 0] (by decide) (by decide)) (by decide)

/-- The repaired code on the two histories. -/
theorem fixed_on_the_F38_witnesses :
    run Cfg.fixed semEx init
        [.define 1 9 true 0, .swap 1 (100, 1), .call 1 0, .swap 1 (101, 2), .call 1 0,
         .swap 1 (100, 1), .call 1 0] =
      [.done, .done, .value (1, 0) true, .done, .value (2, 0) true, .done, .value (1, 0) true] ∧
    run Cfg.fixed semEx init
        [.define 1 1 true 0, .wrap 2 1 0 0, .call 1 0, .swap 1 (101, 2), .call 1 0, .swap 1 (1, 1),
         .clearAll 0, .call 1 0, .swap 1 (101, 2), .call 2 0] =
      [.done, .done, .value (1, 0) true, .done, .value (2, 0) true, .done, .done, .value (1, 0) true,
       .done, .value (2, 0) true] := by
  decide

/-! ## `func_code.py` deleted while entries remain (known finding) -/

/-- Version 1 caches arguments 0 and 1; `func_code.py` is deleted; in a fresh process the EDITED
function (version 2) is called with both: the first call takes the "no func_code.py" branch (writes
the new source, recomputes), the second is then served version 1's value. -/
theorem deleted_func_code_counterexample :
    run Cfg.fixed semEx init
        [.define 1 1 true 0, .call 1 0, .call 1 1, .damage 0 .delete, .fresh, .define 2 2 true 0,
         .call 2 0, .call 2 1] =
      [.done, .value (1, 0) true, .value (1, 1) true, .done, .done, .done, .value (2, 0) true,
       .value (1, 1) false] := by
  decide

/-- A truncated (unreadable or garbled) file in the same place is handled: everything is recomputed. -/
theorem truncated_func_code_witness :
    run Cfg.fixed semEx init
        [.define 1 1 true 0, .call 1 0, .call 1 1, .damage 0 .unreadable, .fresh, .define 2 2 true 0,
         .call 2 0, .call 2 1] =
      [.done, .value (1, 0) true, .value (1, 1) true, .done, .done, .done, .value (2, 0) true,
       .value (2, 1) true] ∧
    run Cfg.fixed semEx init
        [.define 1 1 true 0, .call 1 0, .call 1 1, .damage 0 .other, .fresh, .define 2 2 true 0,
         .call 2 0, .call 2 1] =
      [.done, .value (1, 0) true, .value (1, 1) true, .done, .done, .done, .value (2, 0) true,
       .value (2, 1) true] := by
  decide

/-! ## Transient faults on the WRITE of `func_code.py` (`JoblibModel.FuncCodeFault`)

`open(func_code.py, "wb")` or the `write` after it raises (`EMFILE`, `ENOSPC`, `EACCES`, …) during any call,
`check_call_in_cache` or `MemorizedFunc.clear`, any number of times in a history, while every other write
succeeds.  The code as it is lets the `OSError` reach the caller BEFORE the function is executed and before
anything is stored.  F39 (`deleted_func_code_counterexample`) is about a `func_code.py` somebody DELETED; the
theorems here say that the code itself never makes that state, faults on its own writes included. -/

/-- **Every value that is returned is the own version's, write faults included.**  In every history — with
any operation run while the write of `func_code.py` fails on `open` or on `write` — that never deletes a
`func_code.py` and addresses every directory under one spelling: only a faulted operation raises, and every
call that returns, returns the value its function's current code computes. -/
theorem value_from_own_version_with_write_faults (sem : Src → Nat → R) (ops : List FOp)
    (hnd : ∀ op ∈ ops, NoDelete op.op) (hcan : ∀ op ∈ ops, Canonical op.op) :
    AllCorrectF Cfg.fixed false sem (init : State R) ops :=
  allCorrectF_of_inv good_fixed ops _ (inv_init _ sem) hnd fun op h => keyOK_of_canonical (hcan op h)

/-- **Entries exist in a function directory only beside the code that computed them.**  After every such
history, in every cache directory: no `func_code.py` ⇒ no entry; and when `func_code.py` holds a source text,
every entry beside it is the value THAT source computes.  (A failing write of `func_code.py` leaves the
directory without entries: it was missing-and-empty, or `clear_path` had just emptied it, and the exception
leaves `_cached_call` before the function runs.) -/
theorem entries_only_beside_their_code (sem : Src → Nat → R) (ops : List FOp)
    (hnd : ∀ op ∈ ops, NoDelete op.op) (hcan : ∀ op ∈ ops, Canonical op.op) (d : Loc) :
    let st := execF Cfg.fixed false sem (init : State R) ops
    ((dirAt st d).code = .missing → (dirAt st d).entries = []) ∧
      ∀ s, (dirAt st d).code = .ok s → ∀ a r, dget a (dirAt st d).entries = some r → r = sem s a := by
  intro st
  have hi : Inv Cfg.fixed sem st :=
    inv_execF good_fixed ops _ (inv_init _ sem) hnd fun op h => keyOK_of_canonical (hcan op h)
  exact ⟨fun h => ((hi.dirs d).missing h).1, (hi.dirs d).stored⟩

/-- A faulted operation either raises or is the plain operation (the fault did not fire: no `func_code.py`
was to be written) — for every version of the in-memory tables (`cfg` arbitrary). -/
theorem write_fault_raises_or_is_plain (cfg : Cfg) (sem : Src → Nat → R) (st : State R) (f : WriteFault) (op : Op) :
    (stepF cfg false sem st (.faulty f op)).1 = .raised ∨
      stepF cfg false sem st (.faulty f op) = (.out (step cfg sem st op).1, (step cfg sem st op).2) :=
  stepF_raised_or_plain cfg sem st f op

/-- The history of the regression: version 1's first call meets `EMFILE` on `open(func_code.py)`; the call is
repeated, arguments 1 and 2 are cached; the function is edited; the next session calls all three. -/
def histWriteFault : List FOp :=
  [.plain (.define 1 1 true 0), .faulty .onOpen (.call 1 0), .plain (.call 1 0), .plain (.call 1 1),
   .plain (.call 1 2), .plain .fresh, .plain (.define 2 2 true 0), .plain (.call 2 0), .plain (.call 2 1),
   .plain (.call 2 2)]

/-- A seeded regression: `store_cached_func_code` swallows the failing write.  The faulted call goes on,
registers the function in the in-memory tables and stores its result — in a directory WITHOUT `func_code.py`;
so do the following calls (the shortcut answers).  After the edit the next session takes the "no
func_code.py" branch for its first call (writes the new source, recomputes that argument only) and serves
version 1's values for the other arguments. -/
theorem swallowed_write_error_counterexample :
    runF Cfg.fixed true semEx init histWriteFault =
      [.out .done, .out (.value (1, 0) true), .out (.value (1, 0) false), .out (.value (1, 1) true),
       .out (.value (1, 2) true), .out .done, .out .done, .out (.value (2, 0) true),
       .out (.value (1, 1) false), .out (.value (1, 2) false)] := by
  decide

/-- … the state it creates by itself: entries without `func_code.py`. -/
theorem swallowed_write_error_entries_without_code :
    let st := execF Cfg.fixed true semEx (init : State (Nat × Nat)) (histWriteFault.take 5)
    (dirAt st 0).code = .missing ∧ (dirAt st 0).entries.length = 3 := by
  decide

theorem swallowed_write_error_value_from_own_version_false :
    ¬ ∀ ops : List FOp, (∀ op ∈ ops, NoDelete op.op) → (∀ op ∈ ops, Canonical op.op) →
        AllCorrectF Cfg.fixed true semEx (init : State (Nat × Nat)) ops := by
  intro h
  exact absurd (h histWriteFault (by decide) (by decide)) (by decide)

/-- The code as it is on the same history (the faulted call raises, its repetition writes the code first),
and with the fault on `write` (an empty file is left: the repetition clears and rewrites), and with the fault
met by the EDITED function's first call (after `clear_path`) and by `MemorizedFunc.clear`. -/
theorem fixed_on_the_write_fault_witnesses :
    runF Cfg.fixed false semEx init histWriteFault =
      [.out .done, .raised, .out (.value (1, 0) true), .out (.value (1, 1) true),
       .out (.value (1, 2) true), .out .done, .out .done, .out (.value (2, 0) true),
       .out (.value (2, 1) true), .out (.value (2, 2) true)] ∧
    runF Cfg.fixed false semEx init
        [.plain (.define 1 1 true 0), .faulty .onWrite (.call 1 0), .plain (.call 1 0), .plain (.call 1 1),
         .plain .fresh, .plain (.define 2 2 true 0), .faulty .onOpen (.call 2 1), .plain (.call 2 1),
         .plain (.call 2 0), .faulty .onWrite (.clearFn 2), .plain (.call 2 0), .faulty .onOpen (.call 2 0)] =
      [.out .done, .raised, .out (.value (1, 0) true), .out (.value (1, 1) true), .out .done, .out .done,
       .raised, .out (.value (2, 1) true), .out (.value (2, 0) true), .raised, .out (.value (2, 0) true),
       .out (.value (2, 0) false)] := by
  decide

example : ∀ op ∈ histWriteFault, NoDelete op.op := by decide
example : ∀ op ∈ histWriteFault, Canonical op.op := by decide

/-! ## F10 — the tree before fixes/F10-same-name-redefinition.diff -/

/-- F10: `f` v1 is defined and cached, `f` v2 is defined under the same name and cached; the calls
`c1(1), c2(1), c1(1)` return `(1,1), (2,1), (2,1)`: the third call is answered by the
`_FUNCTION_HASHES` shortcut with the entry version 2 stored. -/
theorem old_F10_counterexample :
    run cfgF10 semEx init [.define 1 1 true 0, .define 2 2 true 0, .call 1 1, .call 2 1, .call 1 1] =
      [.done, .done, .value (1, 1) true, .value (2, 1) true, .value (2, 1) false] := by decide

/-- The first theorem is false of that tree. -/
theorem old_value_from_own_version_false :
    ¬ ∀ ops : List Op, (∀ op ∈ ops, NoDelete op) → (∀ op ∈ ops, Canonical op) →
        AllCorrect cfgF10 semEx (init : State (Nat × Nat)) ops := by
  intro h
  exact absurd (h [.define 1 1 true 0, .define 2 2 true 0, .call 1 1, .call 2 1, .call 1 1] (by decide)
    (by decide)) (by decide)

/-- A second shape of F10 (through `check_call_in_cache`). -/
theorem old_F10_check_counterexample :
    run cfgF10 semEx init
        [.define 1 1 true 0, .define 2 2 true 0, .call 1 1, .check 2 1, .call 1 1, .call 2 1] =
      [.done, .done, .value (1, 1) true, .flag false, .value (1, 1) true, .value (1, 1) false] := by
  decide

/-- The repaired code on the same two histories. -/
theorem fixed_on_the_witnesses :
    run Cfg.fixed semEx init [.define 1 1 true 0, .define 2 2 true 0, .call 1 1, .call 2 1, .call 1 1] =
      [.done, .done, .value (1, 1) true, .value (2, 1) true, .value (1, 1) true] ∧
    run Cfg.fixed semEx init
        [.define 1 1 true 0, .define 2 2 true 0, .call 1 1, .check 2 1, .call 1 1, .call 2 1] =
      [.done, .done, .value (1, 1) true, .flag false, .value (1, 1) true, .value (2, 1) true] := by
  decide

/-! ## The TEXT layer of `func_code.py` (`JoblibModel.FuncCodeText`)

The theorems above treat the stored source as a token and a damaged file as a class. This section is about the
characters: `_write_func_code`'s format string, `extract_first_line`'s parse (`startswith`, `split("\n")`, `int`,
`"\n".join`), and the comparison `old_func_code == func_code`, for every source text and every line number; a torn
file is any strict prefix. (UTF-8 is a parameter: a byte prefix decodes to a code-point prefix or raises
`UnicodeDecodeError`, which is a `ValueError` — case 2 of `torn_reads`.) Tied to `/repo` by the `text` stream of the
check: the real `_write_func_code` / `extract_first_line` on generated texts, intact and cut at every length. -/
section Text
open JoblibModel.FuncCodeText
theorem firstLine_no_nl : NL ∉ firstLineText := by decide

private theorem head_no_nl (n : Int) : NL ∉ firstLineText ++ SP :: showInt n := by
  intro h
  rcases List.mem_append.1 h with h | h
  · exact firstLine_no_nl h
  · rcases List.mem_cons.1 h with h | h
    · exact absurd h (by decide)
    · exact (char_props (showInt_chars n _ h)).2.2 rfl

private theorem isPrefixOf_append (a b : Text) : a.isPrefixOf (a ++ b) = true := by
  induction a with
  | nil => simp
  | cons c cs ih => simp [ih]

/-- ROUND TRIP of the text layer: what `_write_func_code` writes for (`first_line`, `func_code`) is read back by
`extract_first_line` as exactly (`func_code`, `first_line`) — for EVERY source text (any characters, including
lines that themselves start with `# first line:`, `\r`, empty source) and every line number (negative ones
included: `-1` is what joblib stores when the line is unknown). -/
theorem extract_write_roundtrip (first_line : Int) (func_code : Text) (hl : (showInt first_line).length < 4000) :
    extractFirstLine (writeText first_line func_code) = .ok (func_code, first_line) := by
  have hw : writeText first_line func_code = (firstLineText ++ SP :: showInt first_line) ++ NL :: func_code := by
    simp [writeText]
  unfold extractFirstLine
  have hp : firstLineText.isPrefixOf (writeText first_line func_code) = true := by
    unfold writeText; exact isPrefixOf_append _ _
  simp only [hp, if_true]
  rw [hw, splitNL, splitNLAux_append _ _ _ (head_no_nl first_line)]
  simp only [List.reverse_nil, List.nil_append, List.headD_cons, List.tail_cons, List.drop_left']
  rw [(pyInt_showInt first_line hl).1]
  simp only []
  rw [← splitNL, joinNL_splitNL]

private theorem isPrefixOf_short (a p : Text) (h : p.length < a.length) : a.isPrefixOf p = false := by
  induction a generalizing p with
  | nil => simp at h
  | cons c cs ih =>
    cases p with
    | nil => rfl
    | cons d ds =>
      simp only [List.isPrefixOf, Bool.and_eq_false_imp]
      intro _
      exact ih ds (by simpa using h)

private theorem any_take (t : Text) (k : Nat) (f : Nat → Bool) (h : t.any f = false) : (t.take k).any f = false := by
  rw [List.any_eq_false] at *
  intro c hc
  exact h c (List.mem_of_mem_take hc)

/-- WHAT A TORN `func_code.py` READS AS.  The writer is killed inside its single `write`: the file holds the first
`k` characters of what `_write_func_code` meant to write (`k` smaller than the full length).  Then
`extract_first_line` does exactly one of four things, whatever the source and the line number:
(1) `k` is inside the marker `# first line:` — the text is returned whole with line `-1`;
(2) `ValueError` (the number is missing: `int('')`, `int(' ')`, `int(' -')`) — caught by
    `_check_previous_func_code`, which clears the function's directory (repair e0efebd);
(3) the text ends inside the first line after at least one digit — EMPTY source, a truncated line number;
(4) the text ends inside the source — a STRICT prefix of the source, the right line number.
The model never abstains here. -/
theorem torn_reads (first_line : Int) (func_code : Text) (hl : (showInt first_line).length < 3999) (k : Nat)
    (hk : k < (writeText first_line func_code).length) :
    let p := (writeText first_line func_code).take k
    (p.length < firstLineText.length ∧ p = firstLineText.take k ∧ extractFirstLine p = .ok (p, -1))
    ∨ extractFirstLine p = .valueError
    ∨ (∃ m, extractFirstLine p = .ok ([], m))
    ∨ (∃ j, j < func_code.length ∧ extractFirstLine p = .ok (func_code.take j, first_line)) := by
  intro p
  have hW : writeText first_line func_code = firstLineText ++ ((SP :: showInt first_line) ++ NL :: func_code) := by
    simp [writeText]
  by_cases h1 : k < firstLineText.length
  · -- inside the marker
    left
    have hp : p = firstLineText.take k := by
      show (writeText first_line func_code).take k = _
      rw [hW, List.take_append_of_le_length (by omega)]
    have hlen : p.length < firstLineText.length := by rw [hp, List.length_take]; omega
    refine ⟨hlen, hp, ?_⟩
    unfold extractFirstLine
    rw [isPrefixOf_short _ _ hlen]; rfl
  · right
    have h1' : firstLineText.length ≤ k := by omega
    by_cases h2 : k ≤ firstLineText.length + (SP :: showInt first_line).length
    · -- inside the first line: p = marker ++ q, q a prefix of " <number>"
      obtain ⟨q, hq, hp⟩ : ∃ q, q = (SP :: showInt first_line).take (k - firstLineText.length) ∧ p = firstLineText ++ q := by
        refine ⟨_, rfl, ?_⟩
        show (writeText first_line func_code).take k = _
        rw [hW, List.take_append, List.take_of_length_le (by omega),
          List.take_append_of_le_length (by simp at h2 ⊢; omega)]
      have hqn : NL ∉ q := by
        intro h; rw [hq] at h
        have := List.mem_of_mem_take h
        rcases List.mem_cons.1 this with h | h
        · exact absurd h (by decide)
        · exact (char_props (showInt_chars first_line _ h)).2.2 rfl
      have hpn : NL ∉ p := by
        rw [hp]; intro h
        rcases List.mem_append.1 h with h | h
        · exact firstLine_no_nl h
        · exact hqn h
      have hany : q.any (fun c => decide (128 ≤ c)) = false := by
        rw [hq]; apply any_take
        rw [List.any_eq_false]; intro c hc
        rcases List.mem_cons.1 hc with h | h
        · subst h; decide
        · have := (char_props (showInt_chars first_line _ h)).2.1; simp; omega
      have hql : ¬ 4000 < q.length := by rw [hq, List.length_take]; simp; omega
      have hex : extractFirstLine p = (match pyInt q with
          | .ok m => .ok ([], m) | .valueError => .valueError | .untracked => .untracked) := by
        unfold extractFirstLine
        rw [hp, isPrefixOf_append]
        simp only [if_true]
        rw [← hp, splitNL, splitNLAux_single _ _ hpn, hp]
        simp [joinNL]
        cases pyInt q <;> rfl
      rcases pyInt_tracked q hany hql with h | ⟨m, h⟩
      · left; rw [hex, h]
      · right; left; exact ⟨m, by rw [hex, h]⟩
    · -- inside the source
      right; right
      have hk' : k < firstLineText.length + ((SP :: showInt first_line).length + (1 + func_code.length)) := by
        rw [hW] at hk; simp [List.length_append] at hk ⊢; omega
      refine ⟨k - (firstLineText.length + (SP :: showInt first_line).length + 1), by omega, ?_⟩
      have hp : p = (firstLineText ++ SP :: showInt first_line) ++ NL ::
          func_code.take (k - (firstLineText.length + (SP :: showInt first_line).length + 1)) := by
        show (writeText first_line func_code).take k = _
        have e : writeText first_line func_code = (firstLineText ++ SP :: showInt first_line) ++ NL :: func_code := by
          simp [writeText]
        rw [e, List.take_append, List.take_of_length_le (by simp at h2 ⊢; omega)]
        congr 1
        have : k - (firstLineText ++ SP :: showInt first_line).length =
            (k - (firstLineText.length + (SP :: showInt first_line).length + 1)) + 1 := by
          simp at h2 ⊢; omega
        rw [this, List.take_succ_cons]
      unfold extractFirstLine
      rw [hp, List.append_assoc, isPrefixOf_append]
      simp only [if_true]
      rw [← List.append_assoc, splitNL, splitNLAux_append _ _ _ (head_no_nl first_line)]
      simp only [List.reverse_nil, List.nil_append, List.headD_cons, List.tail_cons, List.drop_left']
      rw [(pyInt_showInt first_line (by omega)).1]
      simp only []
      rw [← splitNL, joinNL_splitNL]

/-- An INTACT `func_code.py` compares `same` with the live source iff the two sources are equal, character for
character; it is never `unreadable`. -/
theorem intact_same_iff (first_line : Int) (stored live : Text) (hl : (showInt first_line).length < 4000) :
    (compareStored (writeText first_line stored) live = .same ↔ stored = live) ∧
    (compareStored (writeText first_line stored) live = .changed ↔ stored ≠ live) := by
  unfold compareStored
  rw [extract_write_roundtrip first_line stored hl]
  by_cases h : stored = live <;> simp [h]

/-- A TORN `func_code.py` is never taken for the code of a different version, except in the one way a prefix can:
if the comparison of `_check_previous_func_code` says `same` for a live source `live`, then `live` is a STRICT
PREFIX of the source that was being written (cases 4), or empty (case 3), or a strict prefix of the marker (case 1).
In particular it never says `same` for the source that was being written itself unless that source is empty or a
fragment of the marker — and a real function source is neither (it contains `def` or `lambda`). The model does not
abstain on torn files. -/
theorem torn_same_only_for_prefix (first_line : Int) (func_code live : Text) (hl : (showInt first_line).length < 3999)
    (k : Nat) (hk : k < (writeText first_line func_code).length)
    (h : compareStored ((writeText first_line func_code).take k) live = .same) :
    (∃ j, j < func_code.length ∧ live = func_code.take j) ∨ live = [] ∨
    (live.length < firstLineText.length ∧ live = firstLineText.take k) := by
  unfold compareStored at h
  rcases torn_reads first_line func_code hl k hk with ⟨h1, h2, h3⟩ | h1 | ⟨m, h1⟩ | ⟨j, hj, h1⟩
  · rw [h3] at h; simp only [] at h
    split at h
    · rename_i e; right; right; rw [← e]; exact ⟨h1, h2⟩
    · cases h
  · rw [h1] at h; cases h
  · rw [h1] at h; simp only [] at h
    split at h
    · rename_i e; right; left; exact e.symm
    · cases h
  · rw [h1] at h; simp only [] at h
    split at h
    · rename_i e; left; exact ⟨j, hj, e.symm⟩
    · cases h

theorem torn_never_untracked (first_line : Int) (func_code live : Text) (hl : (showInt first_line).length < 3999)
    (k : Nat) (hk : k < (writeText first_line func_code).length) :
    compareStored ((writeText first_line func_code).take k) live ≠ .untracked := by
  unfold compareStored
  rcases torn_reads first_line func_code hl k hk with ⟨_, _, h3⟩ | h1 | ⟨m, h1⟩ | ⟨j, _, h1⟩
  · rw [h3]; simp only []; split <;> simp
  · rw [h1]; simp
  · rw [h1]; simp only []; split <;> simp
  · rw [h1]; simp only []; split <;> simp

/-- The residue is real (not a weakness of the proof): a writer of `def f():\n  return 12` killed after
`…return 1` leaves a file that a process whose `f` is `def f():\n  return 1` reads as its own code. (No entry of the
longer version can be in the directory at that point: it was cleared just before the write.) -/
theorem torn_prefix_version_witness :
    let long : Text := [100, 101, 102, 32, 102, 40, 41, 58, 10, 32, 32, 114, 101, 116, 117, 114, 110, 32, 49, 50]
    let short : Text := long.take 19
    compareStored ((writeText 7 long).take ((writeText 7 long).length - 1)) short = .same := by
  simp [compareStored, extractFirstLine, writeText, firstLineText, showInt, showNat, SP, NL, splitNL, splitNLAux, pyInt,
    strip, stripLeft, isSpace, parseDigits, isDigit, joinNL, MINUS, PLUS]

/-! Non-vacuity: the length hypothesis holds for every realistic line number; the four cases of `torn_reads` all occur. -/
theorem showNat_length_le (n : Nat) : (showNat n).length ≤ n + 1 := by
  fun_induction showNat n with
  | case1 n h => simp
  | case2 n h ih => simp; omega
/-- Every line number below 3990 in absolute value (far above any real file) meets the length hypothesis. -/
theorem showInt_length_lt (n : Int) (h : n.natAbs < 3990) : (showInt n).length < 3999 := by
  cases n with
  | ofNat k => have := showNat_length_le k; simp [showInt] at h ⊢; omega
  | negSucc k => have := showNat_length_le (k + 1); simp [showInt] at h ⊢; omega
example : extractFirstLine ((writeText 12 [100, 101, 102]).take 5) = .ok ([35, 32, 102, 105, 114], -1) := by
  simp [extractFirstLine, writeText, firstLineText, showInt, showNat, SP, NL]
example : extractFirstLine ((writeText 12 [100, 101, 102]).take 14) = .valueError := by
  simp [extractFirstLine, writeText, firstLineText, showInt, showNat, SP, NL, splitNL, splitNLAux, pyInt,
    strip, stripLeft, isSpace]
example : extractFirstLine ((writeText 12 [100, 101, 102]).take 15) = .ok ([], 1) := by
  simp [extractFirstLine, writeText, firstLineText, showInt, showNat, SP, NL, splitNL, splitNLAux, pyInt,
    strip, stripLeft, isSpace, parseDigits, isDigit, joinNL, MINUS, PLUS]
example : extractFirstLine ((writeText 12 [100, 101, 102]).take 19) = .ok ([100, 101], 12) := by
  simp [extractFirstLine, writeText, firstLineText, showInt, showNat, SP, NL, splitNL, splitNLAux, pyInt,
    strip, stripLeft, isSpace, parseDigits, isDigit, joinNL, MINUS, PLUS]

end Text

end C12
