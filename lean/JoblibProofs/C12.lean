import JoblibProofs.Lemmas.FuncCode
/-!
# C12 — a cached function never returns a value computed by different source code

Statement (properties.jsonl): after a cached function's definition changes — edited between
sessions, redefined under the same name in the same session, or its code object swapped — calls
run the new code rather than returning values cached by the old one, and a still-referenced older
definition keeps returning its own values.  Unchanged code keeps its cache across sessions.

Model: `JoblibModel.FuncCode` — one function identifier in one cache directory: the live function
objects of the current process (each with its current source text), the per-process table
`_FUNCTION_HASHES`, the on-disk `func_code.py` and the entries stored beside it, and
`_check_previous_func_code` / `_write_func_code` / `clear` as the code has them.  What is compared
on disk is the SOURCE TEXT only (the `# first line:` comment is stripped; the line number serves
the collision warnings).  `step .fixed` is the code WITH fixes/F10-same-name-redefinition.diff,
`step .old` the pinned tree.

Quantifier reached: EVERY history (any length) over {execute a `def`/`lambda` creating a new
function object with any source text, swap a live object's code, call / `check_call_in_cache` a
live object with any argument, `MemorizedFunc.clear`, `Memory.clear`, start a fresh process}, every
number of live objects and versions, every value function `sem` (what each source text computes).
Sessions are sequential.  Not in the model: two processes at once (C11), source texts that do not
determine the behaviour (closures over different captured values, lambdas sharing a line — outside
the domain of the property), dead function objects leaving `_FUNCTION_HASHES` (weak references).

For the pinned tree the first theorem is FALSE (F10, `old_F10_counterexample`); the repair is small
and was made, so the full statement is proved for the repaired code.
-/
namespace C12
open JoblibModel.FuncCode
open JoblibModel.FilterArgs (dget)

variable {R : Type}

/-- **Every call returns the value its own version computes.**  In every history run from an empty
cache directory, every call of a live function object whose current source text is `k`, with
argument `a`, returns `sem k a` — whether the call was served from the cache or executed, whatever
other versions of the same-named function were defined, called, swapped or cleared before, in this
process or in earlier ones (`Correct` at every step: `AllCorrect`). -/
theorem value_from_own_version (sem : Src → Nat → R) (ops : List Op) :
    AllCorrect .fixed sem (init : State R) ops :=
  allCorrect_of_inv ops _ (inv_init sem)

/-- The same from any state the repaired code can have produced (the invariant `Inv`: entries hold
values of the stored code, the recorded writer's code is the stored code). -/
theorem value_from_own_version_from (sem : Src → Nat → R) (st : State R) (hi : Inv sem st)
    (ops : List Op) : AllCorrect .fixed sem st ops :=
  allCorrect_of_inv ops st hi

/-- … and every reachable state has that invariant. -/
theorem reachable_inv (sem : Src → Nat → R) (ops : List Op) :
    Inv sem (exec .fixed sem (init : State R) ops) :=
  inv_exec ops _ (inv_init sem)

/-- **Unchanged code keeps its cache.**  Take any history `pre` and `mid` in which every definition
and code swap uses the one source text `k` and nothing is cleared (`Quiet k`: any number of
re-executions of the same `def`, fresh processes, calls and checks with any arguments).  If the
function object `o` is called with `a` after `pre`, then after `mid` a call of ANY live function
object `o'` (same process or a later one) with `a` is served from the cache: the body is not
executed, the value is `sem k a`, and the cache directory is left exactly as it was. -/
theorem unchanged_code_keeps_cache (sem : Src → Nat → R) (k : Src) (pre mid : List Op) (o o' : Obj)
    (a : Nat) (n n' : Bool) (hpre : ∀ op ∈ pre, Quiet k op) (hmid : ∀ op ∈ mid, Quiet k op)
    (hlive : dget o (exec .fixed sem (init : State R) pre).live = some (k, n))
    (hlive' : dget o' (exec .fixed sem (init : State R) (pre ++ .call o a :: mid)).live = some (k, n')) :
    step .fixed sem (exec .fixed sem (init : State R) (pre ++ .call o a :: mid)) (.call o' a) =
      (.value (sem k a) false, exec .fixed sem (init : State R) (pre ++ .call o a :: mid)) := by
  have hi0 := inv_exec (sem := sem) pre _ (inv_init sem)
  obtain ⟨hs0, _⟩ := quiet_exec (sem := sem) pre _ (inv_init sem) (allSrc_init k) hpre
  -- the call of `o` after `pre`
  have hi1 := (step_spec hi0 (.call o a)).1
  obtain ⟨hs1, _⟩ := quiet_step hi0 hs0 (op := .call o a) trivial
  have hent : dget a (step .fixed sem (exec .fixed sem init pre) (.call o a)).2.entries
      = some (sem k a) := by
    obtain ⟨h1, h2, _, h4⟩ := isInCache_spec hi0 o k n a
    simp only [step, hlive]
    cases hr : (isInCache .fixed (exec .fixed sem init pre) o k n a).1 with
    | some v =>
      simp only
      have := h4 v hr
      subst this
      unfold isInCache at hr
      simp only at hr
      split at hr
      · exact hr
      · cases hr
    | none => simp only; exact JoblibModel.FilterArgs.dget_dset_self _ _ _
  have hcode : (step .fixed sem (exec .fixed sem init pre) (.call o a)).2.code = some k := by
    obtain ⟨_, h2, _, _⟩ := isInCache_spec hi0 o k n a
    simp only [step, hlive]
    cases hr : (isInCache .fixed (exec .fixed sem init pre) o k n a).1 <;> simp only <;> exact h2
  -- `mid`
  obtain ⟨hs2, keep⟩ := quiet_exec (sem := sem) mid _ hi1 hs1 hmid
  have hex : exec .fixed sem (init : State R) (pre ++ .call o a :: mid) =
      exec .fixed sem (step .fixed sem (exec .fixed sem init pre) (.call o a)).2 mid := by
    rw [exec_append]; rfl
  rw [hex] at hlive' ⊢
  have hi2 := inv_exec (sem := sem) mid _ hi1
  have hc2 : (exec .fixed sem (step .fixed sem (exec .fixed sem init pre) (.call o a)).2 mid).code
      = some k := by
    cases hc : (exec .fixed sem (step .fixed sem (exec .fixed sem init pre) (.call o a)).2 mid).code with
    | some c => rw [hs2.2 c hc]
    | none =>
      have := keep a _ hent
      rw [hi2.empty hc] at this
      simp [dget] at this
  exact call_hit hlive' hc2 (keep a _ hent)

/-- The step-level fact behind it, from any state: stored code = the function's own source and the
entry present ⇒ hit, nothing executed, nothing changed. -/
theorem hit_when_code_unchanged (sem : Src → Nat → R) (st : State R) (o : Obj) (k : Src) (n : Bool)
    (a : Nat) (r : R) (hl : dget o st.live = some (k, n)) (hc : st.code = some k)
    (he : dget a st.entries = some r) :
    step .fixed sem st (.call o a) = (.value r false, st) :=
  call_hit hl hc he

/-! ## Non-vacuity: a history with two live versions, a code swap, a fresh process and a clear -/

/-- versions 1 and 2 of `f` return `(version, arg)` -/
def semEx : Src → Nat → Nat × Nat := fun k a => (k, a)

def histEx : List Op :=
  [.define 1 1 true, .call 1 7, .define 2 2 true, .call 2 7, .call 1 7, .check 2 7, .call 2 7,
   .swap 1 2, .call 1 7, .fresh, .define 3 1 true, .call 3 7, .clearFn 3, .call 3 7]

example : run .fixed semEx init histEx =
    [.done, .value (1, 7) true, .done, .value (2, 7) true, .value (1, 7) true, .flag false,
     .value (2, 7) true, .done, .value (2, 7) false, .done, .done, .value (1, 7) true, .done,
     .value (1, 7) true] := by decide

example : ∀ op ∈ [Op.define 1 5 true, .call 1 0, .fresh, .define 2 5 true, .check 2 0], Quiet 5 op := by
  decide

/-! ## F10 — the pinned tree -/

/-- F10: `f` v1 is defined and cached, `f` v2 is defined under the same name and cached; the calls
`c1(1), c2(1), c1(1)` return `(1,1), (2,1), (2,1)` on the pinned tree: the third call is answered
by the `_FUNCTION_HASHES` shortcut with the entry version 2 stored. -/
theorem old_F10_counterexample :
    run .old semEx init [.define 1 1 true, .define 2 2 true, .call 1 1, .call 2 1, .call 1 1] =
      [.done, .done, .value (1, 1) true, .value (2, 1) true, .value (2, 1) false] := by decide

/-- The first theorem is false of the pinned tree. -/
theorem old_value_from_own_version_false :
    ¬ ∀ ops : List Op, AllCorrect .old semEx (init : State (Nat × Nat)) ops := by
  intro h
  exact absurd (h [.define 1 1 true, .define 2 2 true, .call 1 1, .call 2 1, .call 1 1]) (by decide)

/-- A second shape of F10 (through `check_call_in_cache`): version 2 only CHECKS (which wipes the
directory and stores its code); version 1's next call passes the shortcut, misses, and stores ITS
value beside version 2's code; version 2 is then served version 1's value. -/
theorem old_F10_check_counterexample :
    run .old semEx init [.define 1 1 true, .define 2 2 true, .call 1 1, .check 2 1, .call 1 1, .call 2 1] =
      [.done, .done, .value (1, 1) true, .flag false, .value (1, 1) true, .value (1, 1) false] := by
  decide

/-- The repaired code on the same two histories. -/
theorem fixed_on_the_witnesses :
    run .fixed semEx init [.define 1 1 true, .define 2 2 true, .call 1 1, .call 2 1, .call 1 1] =
      [.done, .done, .value (1, 1) true, .value (2, 1) true, .value (1, 1) true] ∧
    run .fixed semEx init [.define 1 1 true, .define 2 2 true, .call 1 1, .check 2 1, .call 1 1, .call 2 1] =
      [.done, .done, .value (1, 1) true, .flag false, .value (1, 1) true, .value (2, 1) true] := by
  decide

end C12
