import JoblibProofs.Lemmas.StoreWitness
import JoblibModel.StoreIO
import JoblibModel.StoreObjects
/-!
# C11 — concurrent users of one cache directory always get correct values

Statement (properties.jsonl): any number of threads and processes may call functions cached in the same directory at
the same time — with equal or different arguments, while others evict entries with `reduce_size` or clear the cache —
and every such call still returns the correct value and never raises because of the concurrent activity. Concurrent
writers of one entry leave one complete result, never a mixture.

Model: `JoblibModel.Store` — every participant is a program (`Prog`) whose steps are single system calls on a shared
file system with inodes; the repaired code (fixes F08, F09) is modelled, `Cfg.legacy := true` is the code before them.

Form: rely/guarantee. `Allowed π lvl who fs o` says that a participant whose id satisfies `who` may issue the system
call `o` in state `fs`; the three levels are the guarantees of the statement:
* `G_calls`  — create directories; create / write its own temporaries; rename a complete temporary holding the right
  content onto its final name; (re)write `func_code.py` (a prefix of the live text) and `.gitignore` in place;
* `G_evict`  — additionally remove anything inside entry directories and the entry directories themselves;
* `G_clear`  — additionally remove anything below `<location>/joblib`.
`Runs R p fs tr out fs'` is an execution of `p` from `fs` in which the environment makes ANY number of `R`-steps before
each system call of `p` — so the theorems cover any number of other participants (their steps are just steps of the
relation), any interleaving, with no bound on pre-emptions or on the length of the run.

Quantifier reached: all initial directories satisfying the invariant `Inv` (arbitrary other entries, temporaries,
orphaned open files), all arguments, all codecs with `unpickle (pickle v) = v`, all `func_code.py` contents and all
comparison functions `checkCode` (the call is correct whatever it reads there), all callbacks of the `expires_after`
family, all directory orders, all environments satisfying the guarantee. `call_and_shelve` is not covered here
(`c.shelve = false`): `MemorizedResult.get()` is documented to raise `KeyError` when the entry was evicted.

What is false of the code (and of the model), with witnesses:
* `call_correct_under_G_clear` — a call interleaved with `Memory.clear()` can raise `FileNotFoundError`
  (F19, `call_under_G_clear_can_raise`); the fragment that holds is `call_correct_under_G_clear_partial`
  (it never returns a wrong value).
* `participants_satisfy_G_calls` — a *calling* participant is not confined to `G_calls`: when `func_code.py` does not
  compare equal to its source (e.g. it reads the file while another first-time caller is rewriting it in place) it
  empties the function directory (`caller_leaves_G_calls`), so callers only guarantee `G_clear`
  (`participants_satisfy_G`), and a closed system of ≥ 3 first-time callers inherits F19 (confirmed on the real code by a
  forced schedule, harness/props/c11.py `first-call-race`).
-/
namespace C11
open JoblibModel.Store

variable {π : Par}

/-- `numpy_pickle.load(numpy_pickle.dump(v)) = v` -/
def CodecOK (cd : Codec) : Prop := ∀ v, cd.unpickle (cd.pickle v) = some v

/-- One step of a participant whose id satisfies `who`, at each guarantee level. -/
def G_calls (π : Par) (who : Nat → Prop) (fs fs' : FS) : Prop := ∃ o, Allowed π .calls who fs o ∧ fs' = (apply o fs).2
def G_evict (π : Par) (who : Nat → Prop) (fs fs' : FS) : Prop := ∃ o, Allowed π .evict who fs o ∧ fs' = (apply o fs).2
def G_clear (π : Par) (who : Nat → Prop) (fs fs' : FS) : Prop := ∃ o, Allowed π .clear who fs o ∧ fs' = (apply o fs).2

theorem G_calls_sub_evict {who : Nat → Prop} {fs fs' : FS} (h : G_calls π who fs fs') : G_evict π who fs fs' := by
  obtain ⟨o, ha, e⟩ := h; exact ⟨o, ha.mono_level (Or.inl rfl), e⟩

theorem G_evict_sub_clear {who : Nat → Prop} {fs fs' : FS} (h : G_evict π who fs fs') : G_clear π who fs fs' := by
  obtain ⟨o, ha, e⟩ := h; exact ⟨o, ha.mono_level (Or.inr (Or.inr rfl)), e⟩

/-- "Final names only ever hold complete content": a file named `output.pkl` is the complete pickle of a value computed
for that entry's argument, a file named `metadata.json` is the complete metadata text. -/
def FinalComplete (π : Par) (fs : FS) : Prop :=
  (∀ a d, fs.dataAt (pOut a) = some d → ∃ v g, d = π.cd.pickle ⟨v, a, g⟩) ∧
  (∀ a d, fs.dataAt (pMeta a) = some d → ∃ g, d = π.cd.metaText g)

theorem inv_final {s : Bool} {fs : FS} (h : Inv π s fs) : FinalComplete π fs := by
  refine ⟨fun a d hd => ?_, fun a d hd => ?_⟩
  · obtain ⟨i, hi⟩ := dataAt_eq hd
    obtain ⟨v, g, hv, _⟩ := h.out a i d hi
    exact ⟨v, g, hv⟩
  · obtain ⟨i, hi⟩ := dataAt_eq hd
    exact h.metaOk a i d hi

/-- **one_complete_result.** Whatever the participants do within the strongest guarantee (`G_clear`, which contains the
other two) — in any number, in any order — the invariant is kept; in particular a final name never holds a torn or
mixed result. With `s = true` the result files moreover all hold the value of the live source. -/
theorem one_complete_result {s : Bool} {who : Nat → Prop} {fs fs' : FS} (h : Inv π s fs) (hg : G_clear π who fs fs') :
    Inv π s fs' ∧ FinalComplete π fs' := by
  obtain ⟨o, ha, rfl⟩ := hg
  exact ⟨inv_apply h ha, inv_final (inv_apply h ha)⟩

/-- any number of steps -/
inductive Star (G : FS → FS → Prop) : FS → FS → Prop
  | refl (fs : FS) : Star G fs fs
  | step {fs fs' fs'' : FS} : G fs fs' → Star G fs' fs'' → Star G fs fs''

/-- The same after any number of steps, by any number of participants. -/
theorem one_complete_result_star {s : Bool} {who : Nat → Prop} {fs fs' : FS} (h : Inv π s fs)
    (hs : Star (G_clear π who) fs fs') : Inv π s fs' ∧ FinalComplete π fs' := by
  induction hs with
  | refl fs => exact ⟨h, inv_final h⟩
  | step hg _ ih => exact ih (one_complete_result h hg).1

/-! ## Participants satisfy their guarantee -/

theorem world_env (lvl : Level) (me : Nat) : World π true lvl me (Env π lvl me) :=
  ⟨fun _ _ h => h, fun h => by cases h⟩

theorem trust_true (fs : FS) : TrustK π true fs := fun h => by cases h

theorem pre_true (fs : FS) (hi : Inv π true fs) : Inv π true fs ∧ TrustK π true fs ∧ (True → AbsK π true fs) :=
  ⟨hi, trust_true fs, fun _ h => by cases h⟩

/-- **participants_satisfy_G (calls).** Every system call a cached call makes — whatever the other participants do at
any level `lvl` — is one `G_clear` allows to participant `me` (not `G_calls`: see `caller_leaves_G_calls`); moreover it
completes `func_code.py` only when every result present is of the live source (`CodeSafe`). -/
theorem participants_satisfy_G {lvl : Level} {me : Nat} {c : Cfg} {a : Nat} (hc : CfgOK π me c) (hsh : c.shelve = false)
    (hcd : CodecOK π.cd) {fs fs' : FS} {tr : List (FS × Op)} {out : Outcome Val}
    (hi : Inv π true fs) (hr : Runs (Env π lvl me) (callProc c a) fs tr out fs') :
    ∀ x ∈ tr, Allowed π .clear (fun o => o = me) x.1 x.2 ∧ CodeSafe π x.1 x.2 := fun x hx =>
  have h := ((callProc_sat (strong := True) (world_env lvl me) c hc a hcd).sound hr
    ((good_init (world_env lvl me)).stable) (pre_true fs hi)).1 x hx
  ⟨h.1, h.2 trivial⟩

/-- **participants_satisfy_G (reduce_size).** Every system call of `Memory.reduce_size` is one `G_evict` allows. -/
theorem participants_satisfy_G_evict {lvl : Level} {me : Nat} {c : Cfg} {victims : List Nat}
    {fs fs' : FS} {tr : List (FS × Op)} {out : Outcome Unit}
    (hi : Inv π true fs) (hr : Runs (Env π lvl me) (reduceProc c victims) fs tr out fs') :
    ∀ x ∈ tr, Allowed π .evict (fun o => o = me) x.1 x.2 := fun x hx =>
  (((reduceProc_sat (world_env lvl me) c victims).sound hr (good_inv (world_env lvl me)).stable hi).1 x hx).1

/-- **participants_satisfy_G (clear).** Every system call of `Memory.clear()` is one `G_clear` allows. -/
theorem participants_satisfy_G_clear {lvl : Level} {me : Nat} {c : Cfg}
    {fs fs' : FS} {tr : List (FS × Op)} {out : Outcome Unit}
    (hi : Inv π true fs) (hr : Runs (Env π lvl me) (clearProc c) fs tr out fs') :
    ∀ x ∈ tr, Allowed π .clear (fun o => o = me) x.1 x.2 := fun x hx =>
  (((clearProc_sat (strong := True) (world_env lvl me) c).sound hr (good_inv (world_env lvl me)).stable hi).1 x hx).1

/-! ## Calls are correct under `G_calls` and `G_evict` -/

/-- **call_correct_under_G_calls.** A cached call interleaved with ANY sequence of steps of other participants that
satisfy `G_calls` returns `f(a)` and does not raise. -/
theorem call_correct_under_G_calls {me : Nat} {c : Cfg} {a : Nat} (hc : CfgOK π me c) (hsh : c.shelve = false)
    (hcd : CodecOK π.cd) {fs fs' : FS} {tr : List (FS × Op)} {out : Outcome Val}
    (hi : Inv π true fs) (hr : Runs (G_calls π (fun o => o ≠ me)) (callProc c a) fs tr out fs') :
    ∃ g, out = .ok ⟨π.ver, a, g⟩ := by
  have h := ((callProc_sat (strong := True) (world_env .calls me) c hc a hcd).sound hr
    ((good_init (world_env .calls me)).stable) (pre_true fs hi)).2
  cases out with
  | ok v => simp only [OutSat] at h; obtain ⟨g, hg⟩ := h.2.2 hsh; exact ⟨g, by rw [hg]⟩
  | raised e =>
    simp only [OutSat, EC] at h
    rcases h with h | h
    · cases h
    · rw [hsh] at h; cases h

/-- **call_correct_under_G_evict.** The same when the other participants may also evict entries (`reduce_size`, an
expiring validation callback, …). -/
theorem call_correct_under_G_evict {me : Nat} {c : Cfg} {a : Nat} (hc : CfgOK π me c) (hsh : c.shelve = false)
    (hcd : CodecOK π.cd) {fs fs' : FS} {tr : List (FS × Op)} {out : Outcome Val}
    (hi : Inv π true fs) (hr : Runs (G_evict π (fun o => o ≠ me)) (callProc c a) fs tr out fs') :
    ∃ g, out = .ok ⟨π.ver, a, g⟩ := by
  have h := ((callProc_sat (strong := True) (world_env .evict me) c hc a hcd).sound hr
    ((good_init (world_env .evict me)).stable) (pre_true fs hi)).2
  cases out with
  | ok v => simp only [OutSat] at h; obtain ⟨g, hg⟩ := h.2.2 hsh; exact ⟨g, by rw [hg]⟩
  | raised e =>
    simp only [OutSat, EC] at h
    rcases h with h | h
    · cases h
    · rw [hsh] at h; cases h

/-- After the call the invariant still holds (so the next call, by anybody, starts from a good directory). -/
theorem call_keeps_invariant {lvl : Level} {me : Nat} {c : Cfg} {a : Nat} (hc : CfgOK π me c) (hsh : c.shelve = false)
    (hcd : CodecOK π.cd) {fs fs' : FS} {tr : List (FS × Op)} {v : Val}
    (hi : Inv π true fs) (hr : Runs (Env π lvl me) (callProc c a) fs tr (.ok v) fs') : Inv π true fs' :=
  ((callProc_sat (strong := True) (world_env lvl me) c hc a hcd).sound hr
    ((good_init (world_env lvl me)).stable) (pre_true fs hi)).2.1

/-! ## Against `Memory.clear()`

Full statement (FALSE — `call_under_G_clear_can_raise`):
  `call_correct_under_G_clear : … Runs (G_clear π (· ≠ me)) (callProc c a) fs tr out fs' → ∃ g, out = .ok ⟨π.ver, a, g⟩`. -/

/-- **call_correct_under_G_clear_partial.** Interleaved with participants that may clear the cache, a cached call
never returns a wrong value: if it returns, it returns `f(a)`. (It may raise: F19.) -/
theorem call_correct_under_G_clear_partial {me : Nat} {c : Cfg} {a : Nat} (hc : CfgOK π me c) (hsh : c.shelve = false)
    (hcd : CodecOK π.cd) {fs fs' : FS} {tr : List (FS × Op)} {v : Val}
    (hi : Inv π true fs) (hr : Runs (G_clear π (fun o => o ≠ me)) (callProc c a) fs tr (.ok v) fs') :
    ∃ g, v = ⟨π.ver, a, g⟩ :=
  ((callProc_sat (strong := True) (world_env .clear me) c hc a hcd).sound hr
    ((good_init (world_env .clear me)).stable) (pre_true fs hi)).2.2.2 hsh

/-! ### Witnesses on a concrete instance -/

open JoblibModel.StoreIO in
/-- a concrete codec (the one of the drivers): source `def f(x): …` of one version, first line 1 -/
def cdW : Codec := mkCodec false 1 [[100, 101, 102, 32, 102, 40, 120, 41, 58, 10]]

def πW : Par := ⟨cdW, 0⟩
def cfgW : Cfg := { codec := cdW, me := 0, ver := 0 }

theorem cfgW_ok : CfgOK πW 0 cfgW := ⟨rfl, rfl, rfl, rfl, rfl, rfl, rfl⟩

open JoblibModel.StoreIO in
theorem cdW_ok : CodecOK cdW := by
  intro v
  simp [cdW, mkCodec, toyPickle, toyUnpickle]

theorem inv_empty (π : Par) (s : Bool) : Inv π s FS.empty := by
  have g : ∀ p, p ≠ [] → FS.empty.get p = none := by
    intro p hp; simp [FS.get, FS.empty, hp, lookup]
  have gf : ∀ p i c, FS.empty.get p ≠ some (.file i c) := by
    intro p i c h
    by_cases hp : p = []
    · subst hp; simp at h
    · rw [g p hp] at h; cases h
  refine ⟨⟨fun p q i c c' h => absurd h (gf p i c), fun p i c h => absurd h (gf p i c),
      fun q i c h => by simp [FS.empty] at h, fun p i c q c' h => absurd h (gf p i c)⟩, ?_, ?_, ?_, ?_, ?_⟩
  · intro p j h
    by_cases hp : p = []
    · subst hp; exact nil_not_file
    · rw [g p hp] at h; cases h
  · intro p i c h; exact absurd h (gf p i c)
  · intro a i d h; exact absurd h (gf _ i d)
  · intro a i d h; exact absurd h (gf _ i d)
  · intro p hp h; rw [g p hp] at h; cases h

/-- **call_under_G_clear_can_raise (F19).** There is an execution, starting from an empty scratch directory, of ONE
cached call interleaved with two steps that `G_clear` allows to another participant (`Memory.clear()` removing the
function directory and the module directory, placed after the call's `exists(func_path)` and before its
`open(func_code.py, 'wb')`), in which the call raises `FileNotFoundError`. -/
theorem call_under_G_clear_can_raise :
    ∃ tr fs', Inv πW true FS.empty ∧
      Runs (G_clear πW (fun o => o ≠ 0)) (callProc cfgW 3) FS.empty tr (.raised .fileNotFound) fs' := by
  have hrun : (runWithEnv clearRemovalB (callProc cfgW 3) FS.empty
      [[], [], [], [], [], [], [], [], [], [], [], [], [], [.rmdir pFunc, .rmdir pMod]]).map (·.1)
      = some (.raised .fileNotFound) := by decide
  cases h : runWithEnv clearRemovalB (callProc cfgW 3) FS.empty
      [[], [], [], [], [], [], [], [], [], [], [], [], [], [.rmdir pFunc, .rmdir pMod]] with
  | none => rw [h] at hrun; cases hrun
  | some r =>
    obtain ⟨out, fs'⟩ := r
    rw [h] at hrun
    simp only [Option.map_some, Option.some.injEq] at hrun
    subst hrun
    obtain ⟨tr, hr⟩ := runWithEnv_runs (R := G_clear πW (fun o => o ≠ 0))
      (fun o fs hok => ⟨o, clearRemovalB_sound hok, rfl⟩) _ _ _ _ _ h
    exact ⟨tr, fs', inv_empty _ _, hr⟩

/-- Hence the full-strength statement is false. -/
theorem call_correct_under_G_clear_counterexample :
    ¬ (∀ (fs fs' : FS) (tr : List (FS × Op)) (out : Outcome Val), Inv πW true fs →
        Runs (G_clear πW (fun o => o ≠ 0)) (callProc cfgW 3) fs tr out fs' → ∃ g, out = .ok ⟨πW.ver, 3, g⟩) := by
  intro h
  obtain ⟨tr, fs', hi, hr⟩ := call_under_G_clear_can_raise
  obtain ⟨g, hg⟩ := h _ _ _ _ hi hr
  cases hg

/-- **caller_leaves_G_calls.** A first-time caller that reads a half-written `func_code.py` (here: created by another
first-time caller, not yet written — the empty file) removes `func_code.py` and the function directory: a step outside
`G_calls` and `G_evict`. (`Memory` users that only *call* cached functions are therefore clearing participants.) -/
theorem caller_leaves_G_calls :
    ∃ fs, Inv πW true fs ∧ (run (callProc cfgW 3) fs).1 = .ok ⟨0, 3, 0⟩ ∧
      (runLog (callProc cfgW 3) fs).1.any
        (fun x => (match x.1 with | .unlink p _ => p == pCode | _ => false) && x.2 == .ok) = true := by
  refine ⟨(run ((configure cfgW).bind fun _ => ensureFuncDir.bind fun _ => Prog.call (.creat pCode)) FS.empty).2,
    ?_, by decide, by decide⟩
  -- the state is reached from the empty directory by allowed calls
  have hs : Sat (fun _ _ => False) (OwnG πW 0 True) (Inv πW true)
      ((configure cfgW).bind fun _ => ensureFuncDir.bind fun _ => Prog.call (.creat pCode))
      (fun _ fs => Inv πW true fs) (fun _ fs => Inv πW true fs) := by
    have hW : World πW true .calls 0 (fun _ _ => False) := ⟨fun _ _ h => h.elim, fun h => by cases h⟩
    refine Sat.bind ((configure_sat (G := OwnG πW 0 True) own_up'
      (fun fs i d hl ha => own_write_other hl (by simp [pGit, pCode]) ha) hW (good_inv hW) cfgW).post
      (fun _ _ h => h.1) (fun _ _ h => h.1)) fun _ => ?_
    refine Sat.bind ((ensureFuncDir_sat hW (good_inv hW)).post (fun _ _ h => h.1) (fun _ _ h => h.1)) fun _ => ?_
    refine Sat.ownop (P' := Inv πW true) (fun fs _ => own_up (by intro _ _ _ e; cases e) (.creat pCode (Or.inr (Or.inr rfl))))
      (fun fs h => inv_apply (lvl := .calls) (who := fun x => x = 0) h (.creat pCode (Or.inr (Or.inr rfl))))
      (fun _ _ h hR => hR.elim) fun r => .ret fun fs h => h
  obtain ⟨tr, hr⟩ := runs_solo ((configure cfgW).bind fun _ => ensureFuncDir.bind fun _ => Prog.call (.creat pCode)) FS.empty
  have := (hs.sound hr (fun _ _ _ hR => hR.elim) (inv_empty _ _)).2
  revert this
  cases (run ((configure cfgW).bind fun _ => ensureFuncDir.bind fun _ => Prog.call (.creat pCode)) FS.empty).1 with
  | ok v => exact fun h => h
  | raised e => exact fun h => h

/-! Non-vacuity: the hypotheses are satisfiable by a non-trivial instance. -/
example : CodecOK cdW := cdW_ok
example : CfgOK πW 0 cfgW := cfgW_ok
example : Inv πW true FS.empty := inv_empty _ _
example : (run (callProc cfgW 3) FS.empty).1 = .ok ⟨0, 3, 0⟩ := by decide
example : (run (callProc cfgW 3) (run (callProc { cfgW with me := 1 } 3) FS.empty).2).1 = .ok ⟨0, 3, 0⟩ := by decide


/-! ## Object histories (`JoblibModel.StoreObjects`): users that live on, others clear / evict between their operations -/
section Objects
open JoblibModel.StoreObjects

/-- the witness history: object A (process 0) is created and calls `f 3`, `f 4`; object B of ANOTHER process is created
and clears the cache; A calls `f 5` (new), `f 3` (cleared), `f 3` (cached again) — then the same with B evicting. -/
def histW (disturb : Step) : List Step :=
  [.new 0 cfgW, .call 0 0 cfgW 3, .call 0 0 cfgW 4, .new 1 { cfgW with me := 1 }, disturb,
   .call 0 0 cfgW 5, .call 0 0 cfgW 3, .call 0 0 cfgW 3]

theorem prog_bind_assoc {α β γ : Type} (p : Prog α) (f : α → Prog β) (h : β → Prog γ) :
    (p.bind f).bind h = p.bind fun x => (f x).bind h := by
  induction p with
  | ret a => rfl
  | raise e => rfl
  | op o k ih => simp only [Prog.bind]; congr 1; funext r; exact ih r

/-- A process that does not know the function object takes the decisions of the fresh user of `Store` (the in-memory
shortcut is the only difference between an object that lives on and a fresh one). -/
theorem checkPreviousObj_fresh (c : Cfg) (m : ProcMem) (g : Nat) (hk : m.knows g = false) (hl : c.legacy = false) :
    ((checkPreviousObj c m g).bind fun r => Prog.ret r.1) = checkPrevious c := by
  unfold checkPreviousObj checkPrevious
  simp only [hk, hl, Bool.false_eq_true, if_false]
  simp only [Prog.bind]
  congr 1; funext r
  cases r <;> simp only [Prog.bind] <;> try (congr 1; funext r; cases r <;> simp only [Prog.bind])
  all_goals first | (simp only [prog_bind_assoc, Prog.bind]; done) | (cases c.codec.checkCode c.ver ‹Bytes› <;> simp only [prog_bind_assoc, Prog.bind]; done)

/-- Witness (concrete history, evaluated): after ANOTHER object — of another process, so that nothing this process
remembers is reset — cleared the cache, cleared the function, evicted everything or evicted one entry, every call of
the first object still returns `f x`, recomputing exactly what was removed. -/
theorem object_history_witness :
    (history [] FS.empty (histW (.clear 1 { cfgW with me := 1 }))).drop 5
      = [.value ⟨0, 5, 0⟩ true, .value ⟨0, 3, 0⟩ true, .value ⟨0, 3, 0⟩ false] ∧
    (history [] FS.empty (histW (.fclear 1 1 { cfgW with me := 1 }))).drop 5
      = [.value ⟨0, 5, 0⟩ true, .value ⟨0, 3, 0⟩ true, .value ⟨0, 3, 0⟩ false] ∧
    (history [] FS.empty (histW (.reduce 1 { cfgW with me := 1 } [4, 3]))).drop 5
      = [.value ⟨0, 5, 0⟩ true, .value ⟨0, 3, 0⟩ true, .value ⟨0, 3, 0⟩ false] ∧
    (history [] FS.empty (histW (.iclear 1 { cfgW with me := 1 } 3))).drop 5
      = [.value ⟨0, 5, 0⟩ true, .value ⟨0, 3, 0⟩ true, .value ⟨0, 3, 0⟩ false] := by
  decide

end Objects

end C11
