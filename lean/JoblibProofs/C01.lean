import JoblibProofs.Lemmas.ParallelProto
import JoblibProofs.Lemmas.AutoBatch
import JoblibProofs.Lemmas.ParallelSeq
/-!
# C01 — Parallel returns what the sequential loop returns, in order, each task once

Statement (properties.jsonl): for any finite iterable of delayed calls, `Parallel(...)(tasks)` with
`return_as='list'` or `'generator'` yields exactly `[f(*a, **k) for f, a, k in tasks]` in submission order, for every
backend, `n_jobs`, `batch_size` (fixed or `'auto'`) and `pre_dispatch` setting; every task is executed exactly once
whatever the order and timing in which workers finish their batches.

Model: `JoblibModel.ParallelProto` (M1). Task `i` of a call is the id `base + i`, and `f` is the identity on ids,
so "the values of the sequential loop" is `List.range' base n`. ALL non-determinism is in the schedule
`St.sched` (which parked batch completes at which hook point), in what earlier calls left parked, and in the
scripted batch sizes `Cfg.bs`.

Quantifier reached: ALL schedules (any `sched`, any leftovers of earlier calls in `parked`), ALL task counts `n`,
ALL configurations with `n_jobs ≥ 2` (hence ≥ 1), every scripted batch size ≥ 1 (fixed or auto: see
`auto_batch_size_ge_one`), `pre_dispatch = 'all'` or evaluating to ≥ 1, ordered modes `return_as ∈ {list,
generator}` — by invariants and induction on fuel / schedule, never by enumeration. Granularity: completion
callbacks are atomic and happen at the hook points of harness/ctl.py (DESIGN "M1 granularity").
`pre_dispatch` evaluating to 0 is excluded: `pre_dispatch_zero_counterexample` (finding F11).
`return_as='generator_unordered'`: `return_correct_unordered` — the result is a rearrangement of the sequential
results, each value exactly once (whole batches in completion order: C16). The invariants `conservation` /
`exactly_once` and `no_hang` hold in all three modes.
-/
namespace C01
open JoblibModel.ParallelProto

/-- The configurations of the model's domain. -/
theorem cfgOK_of {c : Cfg} (hnj : 2 ≤ c.nj) (hbs : ∀ b ∈ c.bs, 1 ≤ b) : CfgOK c := ⟨by omega, hbs⟩

/-- The invariant `Inv c t0 s` (see `Lemmas/ParallelProto/Inv.lean`; `t0` = number of trackers that existed when
the call started) holds when `callStart` hands over to the retrieval phase, for every idle start state —
including late completions of earlier calls sitting in `parked` and arriving at `backend.configure()`. -/
theorem invariant_established {c : Cfg} (hnj : 2 ≤ c.nj) (hbs : ∀ b ∈ c.bs, 1 ≤ b) (fuel base : Nat)
    (spec : CallSpec) {s : St} (hi : Idle s) (hh : s.hung = false) :
    ∃ s1, callStart c fuel base spec s = (s1, none) ∧ Inv c s.trk.length s1 := by
  obtain ⟨s1, h1, h2⟩ := callStart_started (cfgOK_of hnj hbs) fuel base spec hi hh
  exact ⟨s1, h1, h2.inv⟩

/-- The invariant is preserved by every step of the protocol at the model's granularity: any hook point (the
schedule delivers any completions, each callback atomic, including `dispatch_next`), the locked region of
`dispatch_one_batch` from either thread, the caller's `dispatch_one_batch`, `_start`, `get_status`. (The steps of
the retrieval loop proper are covered by `retrieveLoop_spec`, used in `return_correct`.) -/
theorem invariant_preserved {c : Cfg} (hnj : 2 ≤ c.nj) (hbs : ∀ b ∈ c.bs, 1 ≤ b) {t0 : Nat} {s : St}
    (h : Inv c t0 s) :
    (∀ sleep, Inv c t0 (hook c sleep s)) ∧
    (∀ k, Inv c t0 (deliver c k s)) ∧
    (∀ l, Inv c t0 (deliverAll c s l)) ∧
    (∀ fo bs, 1 ≤ bs → s.aborting = false → Inv c t0 (dispatchLocked c fo bs s).1) ∧
    Inv c t0 (dispatchOneMain c s).1 ∧
    (∀ fuel, Inv c t0 (startLoop c fuel s)) ∧
    (∀ i, t0 ≤ i → i < s.trk.length → Inv c t0 (getStatus c s i).1) := by
  have hc := cfgOK_of hnj hbs
  refine ⟨fun sl => (hook_spec hc sl h).inv, fun k => (deliver_spec hc k h).1.inv,
    fun l => (deliverAll_spec hc l s h).inv, ?_, (dispatchOneMain_spec hc h).inv,
    fun fuel => (startLoop_spec hc fuel s h).inv, fun i h0 h1 => (getStatus_spec h h0 h1).1⟩
  intro fo bs hb hna
  have hd := dispatchLocked_dlspec hc (fo := fo) hb h.T h.S h.L hna
  exact ⟨hd.T, hd.S, hd.L, hd.iterp h.P⟩

/-- Trackers of other calls (stale callbacks) are no-ops on the `Parallel` object. -/
theorem stale_callback_noop (c : Cfg) (s : St) (i : Nat) (failed : Option Nat)
    (h : (getTrk s i).callId ≠ s.callId) : callback c s i failed = s :=
  JoblibModel.ParallelProto.stale_callback_noop c s i failed h

/-- CONSERVATION. In every state of a call that is not aborting: the ids in this call's trackers (in creation
order), then the look-ahead queue, then the not yet sliced input, are exactly the call's ids in order — nothing
lost, nothing duplicated, order kept. -/
theorem dispatch_conservation {c : Cfg} {t0 : Nat} {s : St} (h : Inv c t0 s) (hna : s.aborting = false) :
    dispItems t0 s ++ s.ready.flatten ++ List.range' (s.base + s.srcPos) (s.spec.n - s.srcPos) =
      List.range' s.base s.spec.n := by
  rw [h.S.cons hna]
  have := h.S.src_le
  have e : s.spec.n = s.srcPos + (s.spec.n - s.srcPos) := by omega
  conv => rhs; rw [e]
  rw [← List.range'_append]
  simp

/-- EXACTLY ONCE (at most once at any time). While the call is not aborting every task id occurs at most once
in all the batches dispatched by the call, and only ids of the call occur. -/
theorem exactly_once {c : Cfg} {t0 : Nat} {s : St} (h : Inv c t0 s) (hna : s.aborting = false) :
    (dispItems t0 s).Nodup ∧ ∀ id ∈ dispItems t0 s, s.base ≤ id ∧ id < s.base + s.spec.n := by
  have hc := h.S.cons hna
  have hn : (dispItems t0 s ++ s.ready.flatten).Nodup := by
    rw [hc]; exact List.nodup_range' (step := 1) (by omega)
  refine ⟨(List.nodup_append.mp hn).1, ?_⟩
  intro id hid
  have : id ∈ List.range' s.base s.srcPos := by rw [← hc]; exact List.mem_append_left _ hid
  rw [List.mem_range'_1] at this
  have := h.S.src_le
  omega

/-- EXACTLY ONCE (exactly once at normal return). When the retrieval loop takes its normal exit (not aborting,
`_iterating` cleared, after `_start`), the batches dispatched by the call contain exactly the call's ids, each
once, in order. -/
theorem exactly_once_at_exit {c : Cfg} {t0 : Nat} {s : St} (h : Inv c t0 s) (hp : Post s)
    (hna : s.aborting = false) (hit : s.iterating = false) :
    dispItems t0 s = List.range' s.base s.spec.n := by
  obtain ⟨h1, h2⟩ := hp hna hit
  have hc := h.S.cons hna
  rw [h1, (h.S.dead hna h2).1] at hc
  simpa using hc

/-- RETURN CORRECT (and no hang). A list-mode call on an idle `Parallel` object in which no task of the call
fails, the input does not raise and there is no timeout returns exactly the sequential results
`List.range' base n`, for EVERY schedule — including late completions of earlier calls in `parked` — every task
count, `n_jobs ≥ 2`, scripted batch sizes ≥ 1, `pre_dispatch = 'all'` or ≥ 1, ordered `return_as`; `hung` is
never set and the object is left idle and clean. Fuel: `2 n + |sched| + |parked| + 2`. -/
theorem return_correct {c : Cfg} (hnj : 2 ≤ c.nj) (hbs : ∀ b ∈ c.bs, 1 ≤ b) (hra : c.ra ≠ 2)
    (hpd : c.pdMode = 1 ∨ 1 ≤ c.pd) (hto : c.timeout = -1)
    {fuel base : Nat} {spec : CallSpec} {s₀ : St} (hi : Idle s₀) (hh : s₀.hung = false)
    (hfail : ∀ id ∈ s₀.failIds, ¬ (base ≤ id ∧ id < base + spec.n)) (hiter : spec.iterfail = -1)
    (hfuel : 2 * spec.n + s₀.sched.length + s₀.parked.length + 2 ≤ fuel) :
    ∃ s', callList c fuel base spec s₀ = (s', .ret (List.range' base spec.n)) ∧
      Idle s' ∧ Clean s' ∧ s'.hung = false ∧ s'.exception = false :=
  callList_nofail (cfgOK_of hnj hbs) (by simp [ordered, hra]) hi hh hpd hfail (by omega) (by omega) hfuel

/-- RETURN CORRECT, `return_as='generator_unordered'`. Under the same hypotheses the values returned are a
rearrangement of the sequential results: every task's value exactly once, none lost, none duplicated — for every
schedule. (They come out batch by batch in completion order: C16 `unordered_completion_order_partial`.) -/
theorem return_correct_unordered {c : Cfg} (hnj : 2 ≤ c.nj) (hbs : ∀ b ∈ c.bs, 1 ≤ b) (hra : c.ra = 2)
    (hpd : c.pdMode = 1 ∨ 1 ≤ c.pd) (hto : c.timeout = -1)
    {fuel base : Nat} {spec : CallSpec} {s₀ : St} (hi : Idle s₀) (hh : s₀.hung = false)
    (hfail : ∀ id ∈ s₀.failIds, ¬ (base ≤ id ∧ id < base + spec.n)) (hiter : spec.iterfail = -1)
    (hfuel : 2 * spec.n + s₀.sched.length + s₀.parked.length + 2 ≤ fuel) :
    ∃ s' out, callList c fuel base spec s₀ = (s', .ret out) ∧ out.Perm (List.range' base spec.n) ∧
      Idle s' ∧ Clean s' ∧ s'.hung = false ∧ s'.exception = false :=
  callList_nofail_u (cfgOK_of hnj hbs) (by simp [ordered, hra]) hi hh hpd hfail (by omega) (by omega) hfuel

/-- QUIESCENT TERMINATION / NO HANG, with failures allowed. Whatever fails (tasks, the input iterable, the
timeout), whatever the schedule and whatever `return_as`, a call on an idle object never ends in `.hung`: it returns or
raises, with `hung = false`, leaving the object idle and clean. In particular when nothing is parked and no
callback is pending the retrieval loop exits instead of sleeping (`pending_exists`). -/
theorem no_hang {c : Cfg} (hnj : 2 ≤ c.nj) (hbs : ∀ b ∈ c.bs, 1 ≤ b)
    (hpd : c.pdMode = 1 ∨ 1 ≤ c.pd) {fuel base : Nat} {spec : CallSpec} {s₀ : St} (hi : Idle s₀)
    (hh : s₀.hung = false) (hfuel : 2 * spec.n + s₀.sched.length + s₀.parked.length + 2 ≤ fuel) :
    (callList c fuel base spec s₀).2 ≠ .hung ∧ (callList c fuel base spec s₀).1.hung = false ∧
      Idle (callList c fuel base spec s₀).1 := by
  have h := callList_general_all (cfgOK_of hnj hbs) (base := base) (spec := spec) hi hh hpd hfuel
  generalize callList c fuel base spec s₀ = r at h
  obtain ⟨s', o⟩ := r
  cases o with
  | ret v => exact ⟨by simp, h.2.2.1, h.1⟩
  | raised e => exact ⟨by simp, h.2.2.1, h.1⟩
  | hung => exact h.elim

/-- While the retrieval loop has to wait (`_iterating`, or fewer tasks completed than dispatched) and the call is
not aborting, some batch of the call is parked at the backend: the loop never sleeps with nothing to wait for. -/
theorem waiting_means_parked {c : Cfg} {t0 : Nat} {s : St} (h : Inv c t0 s) (hna : s.aborting = false)
    (hw : s.iterating = true ∨ s.nCompleted < s.nDispTasks) : s.parked ≠ [] := by
  obtain ⟨i, _, _, _, hi⟩ := pending_exists h hna hw
  intro hx; rw [hx] at hi; simp at hi

/-- The state of a fresh `Parallel` object is idle, for every schedule and every set of failing ids. -/
theorem initial_idle (sched : List (List Nat)) (failIds : List Nat) :
    Idle ({ sched := sched, failIds := failIds } : St) :=
  ⟨rfl, rfl, rfl, fun i => by simp [getTrk], fun i hi => by simp at hi, by simp,
    Or.inr (fun i hi => by simp at hi)⟩

/-- F11 (known finding): with `pre_dispatch` evaluating to 0 nothing is dispatched and the call silently
returns `[]` although it has 3 tasks. `return_correct` therefore requires `pre_dispatch ≥ 1` or `'all'`. -/
theorem pre_dispatch_zero_counterexample :
    (callList (⟨2, false, [1], 0, 0, 0, -1, false, true⟩ : Cfg) 30 0 ⟨3, [], -1, []⟩ {}).2 = .ret [] := by
  decide

/-- The scripted batch sizes of the real auto-batching backends: for every sequence of `compute_batch_size` /
`batch_completed` operations from the initial state, every value `compute_batch_size` returns is ≥ 1. This
discharges M1's hypothesis "all scripted batch sizes ≥ 1" for `batch_size='auto'`. -/
theorem auto_batch_size_ge_one (ops : List JoblibModel.AutoBatch.Op) :
    ∀ b ∈ JoblibModel.AutoBatch.run {} ops, 1 ≤ b :=
  JoblibModel.AutoBatch.run_all_ge_one {} ops (by decide)

/-- The same ACROSS the calls of one `Parallel` object (round 5, seed m2): the loky / multiprocessing backends keep their
batching statistics between the calls of a managed `with Parallel(...)` (they are reset by `terminate()` only: `Op.reset`),
whatever the inputs of these calls are (`Op.newCall nTasks nDispatched nWorkers`: sized or unsized input, the counters of the
`Parallel` object, the number of workers — the mixin reads none of them). After ANY history `hist` of calls (computes,
completions, resets, new calls, in any order and number) the stored `_effective_batch_size` is ≥ 1, and every value
`compute_batch_size` returns in whatever follows (`next`) is ≥ 1 — so no later call can slice its input by `islice(it, 0)` and
take it for exhausted. -/
theorem auto_batch_size_ge_one_across_calls (hist next : List JoblibModel.AutoBatch.Op) :
    1 ≤ (JoblibModel.AutoBatch.final {} hist).eff ∧
    (∀ b ∈ JoblibModel.AutoBatch.run (JoblibModel.AutoBatch.final {} hist) next, 1 ≤ b) ∧
    JoblibModel.AutoBatch.run {} (hist ++ next) =
      JoblibModel.AutoBatch.run {} hist ++ JoblibModel.AutoBatch.run (JoblibModel.AutoBatch.final {} hist) next :=
  have h := JoblibModel.AutoBatch.final_eff_ge_one {} hist (by decide)
  ⟨h, JoblibModel.AutoBatch.run_all_ge_one _ next h, JoblibModel.AutoBatch.run_append {} hist next⟩

/-- The batch size depends on the history of `(batch size, duration)` records since the last reset ONLY: the inputs of the
calls (`newCall`) can be dropped from any history without changing a single returned value. -/
theorem auto_batch_size_ignores_call_inputs (s : JoblibModel.AutoBatch.St) (ops : List JoblibModel.AutoBatch.Op) :
    JoblibModel.AutoBatch.run s ops =
      JoblibModel.AutoBatch.run s (ops.filter (fun o => match o with | .newCall _ _ _ => false | _ => true)) := by
  induction ops generalizing s with
  | nil => rfl
  | cons op r ih =>
    cases op with
    | compute => simp only [List.filter, JoblibModel.AutoBatch.run, JoblibModel.AutoBatch.step]; rw [ih]
    | completed b d => simp only [List.filter, JoblibModel.AutoBatch.run, JoblibModel.AutoBatch.step]; rw [ih]
    | reset => simp only [List.filter, JoblibModel.AutoBatch.run, JoblibModel.AutoBatch.step]; rw [ih]
    | newCall a b c => simp only [List.filter, JoblibModel.AutoBatch.run, JoblibModel.AutoBatch.step]; rw [ih]

/-- A managed object: a 400-task list processed in fast batches (the size grows 1 → 2 → 4), then a second call with a short
sized input whose last `compute_batch_size` is made with nothing left to dispatch: all sizes ≥ 1 (a cap by "tasks left /
workers", cf. the counterexample of seed m2, would have given 0 here and in every later call). -/
example : JoblibModel.AutoBatch.run {} [.newCall (some 400) 0 2, .compute, .completed 1 ⟨1, 100⟩, .compute, .completed 2 ⟨1, 100⟩,
    .compute, .newCall (some 3) 0 2, .compute, .completed 4 ⟨1, 100⟩, .newCall (some 3) 3 2, .compute, .newCall none 0 2, .compute]
    = [1, 2, 4, 4, 8, 8] := by decide

/-! ### the hypotheses are satisfiable -/

/-- A configuration (`n_jobs=2`, auto batch sizes 1, 3, 2, …, `pre_dispatch=3`, list mode) and a non-trivial
schedule satisfying all hypotheses of `return_correct`. -/
example : ∃ s', callList (⟨2, true, [1, 3, 2], 0, 3, 0, -1, false, true⟩ : Cfg) 100 0 ⟨7, [], -1, []⟩
      ({ sched := [[0], [], [1, 0], [0]], failIds := [] } : St) = (s', .ret [0, 1, 2, 3, 4, 5, 6]) ∧
      Idle s' ∧ Clean s' ∧ s'.hung = false ∧ s'.exception = false :=
  return_correct (by decide) (by decide) (by decide) (by decide) rfl (initial_idle _ _) rfl (by simp) rfl
    (by decide)

example : (callList (⟨2, true, [1, 3, 2], 0, 3, 0, -1, false, true⟩ : Cfg) 100 0 ⟨7, [], -1, []⟩
      ({ sched := [[0], [], [1, 0], [0]], failIds := [] } : St)).2 = .ret [0, 1, 2, 3, 4, 5, 6] := by decide

/-- Unordered mode, same configuration, another schedule: a rearrangement (batches in completion order). -/
example : (callList (⟨2, true, [1, 3, 2], 0, 3, 2, -1, false, true⟩ : Cfg) 100 0 ⟨7, [], -1, []⟩
      ({ sched := [[1], [], [1, 0], [1]], failIds := [] } : St)).2 = .ret [0, 1, 4, 5, 2, 3, 6] := by decide


/-! ### the sequential path (`n_jobs == 1`, `Parallel._get_sequential_output`, model `JoblibModel.ParallelSeq`) -/

section Sequential
open JoblibModel.ParallelSeq

/-- SEQUENTIAL RETURN CORRECT. With `n_jobs == 1` a list-mode call on an idle object, none of whose tasks fails and
whose input does not raise, returns exactly the sequential results `List.range' base n` — for every schedule (the
hook points only consume schedule entries), every `batch_size` (the re-batching uses `max bs 1`), every leftover of
earlier calls. Fuel: `n + 2`. The object is idle afterwards and all `n` tasks have been executed. -/
theorem sequential_return_correct (c : Cfg) {fuel base : Nat} {spec : CallSpec} {s₀ : St} (hi : Idle s₀)
    (hfail : ∀ id ∈ s₀.failIds, ¬ (base ≤ id ∧ id < base + spec.n)) (hiter : spec.iterfail = -1)
    (hfuel : spec.n + 2 ≤ fuel) :
    ∃ s', seqCallList c fuel base spec s₀ = (s', .ret (List.range' base spec.n)) ∧ Idle s' ∧
      s'.nCompleted = spec.n ∧ s'.exception = false ∧ s'.hung = s₀.hung := by
  have h := seqCallList_spec c (base := base) (spec := spec) hi hfuel
  generalize seqCallList c fuel base spec s₀ = r at h
  obtain ⟨s', o⟩ := r
  cases o with
  | ret v =>
    obtain ⟨a1, a2, a3, a4, a5, _⟩ := h
    exact ⟨s', by rw [a1], a2, a3, a4, a5⟩
  | raised e =>
    obtain ⟨_, _, _, _, _, _, a7⟩ := h
    rcases a7 with ⟨_, b2, b3, _⟩ | ⟨pos, _, b2, _⟩
    · exact absurd ⟨Nat.le_add_right _ _, by omega⟩ (hfail _ b2)
    · omega
  | hung => exact h.elim

/-- SEQUENTIAL EXACTLY ONCE. Every `next()` on a live sequential generator executes exactly the next id in order
(`base + nCompleted`) and counts it; when a list-mode call returns, `nCompleted = n`, the returned list is the ids in
order and has no duplicates: each task was executed exactly once. -/
theorem sequential_exactly_once (c : Cfg) :
    (∀ (fuel : Nat) (s : St) (g : SGen), SInv s g → ∀ s' g' v, seqNext (fuel + 2) s g = (s', g', .value v) →
      v = s.base + s.nCompleted ∧ s'.nCompleted = s.nCompleted + 1 ∧ SInv s' g') ∧
    (∀ (fuel base : Nat) (spec : CallSpec) (s₀ s' : St) (v : List Nat), Idle s₀ → spec.n + 2 ≤ fuel →
      seqCallList c fuel base spec s₀ = (s', .ret v) →
      v = List.range' base spec.n ∧ v.Nodup ∧ s'.nCompleted = spec.n) := by
  constructor
  · intro fuel s g h s' g' v he
    have := seqNext_spec fuel h
    rw [he] at this
    exact ⟨this.1, this.2.2.2.1, this.2.2.1⟩
  · intro fuel base spec s₀ s' v hi hf he
    have := seqCallList_spec c (base := base) (spec := spec) hi hf
    rw [he] at this
    exact ⟨this.1, by rw [this.1]; exact List.nodup_range' (step := 1) (by omega), this.2.2.1⟩

/-- SEQUENTIAL LEAVES IDLE. However a sequential call on an idle object ends (return or raise, whatever fails), the
object is idle afterwards (`_running = False`, …): sequential and parallel calls compose in any order. -/
theorem sequential_leaves_idle (c : Cfg) {fuel base : Nat} {spec : CallSpec} {s₀ : St} (hi : Idle s₀)
    (hfuel : spec.n + 2 ≤ fuel) :
    Idle (seqCallList c fuel base spec s₀).1 ∧ (seqCallList c fuel base spec s₀).1.running = false ∧
    (seqCallList c fuel base spec s₀).2 ≠ .hung := by
  have h := seqCallList_spec c (base := base) (spec := spec) hi hfuel
  generalize seqCallList c fuel base spec s₀ = r at h
  obtain ⟨s', o⟩ := r
  cases o with
  | ret v => exact ⟨h.2.1, h.2.1.running, by simp⟩
  | raised e => exact ⟨h.1, h.1.running, by simp⟩
  | hung => exact h.elim

example : (seqCallList (⟨1, true, [3, 2], 0, 2, 0, -1, false, true⟩ : Cfg) 20 5 ⟨7, [], -1, []⟩
    ({ sched := [[0], [1]], failIds := [2] } : St)).2 = .ret [5, 6, 7, 8, 9, 10, 11] := by decide

end Sequential

end C01
