import JoblibProofs.Lemmas.MemoryCache
/-!
# C02 — a Memory-cached function never returns a value belonging to other arguments

Statement (properties.jsonl): a function wrapped by `Memory.cache` always returns a value equal to
what the undecorated function returns for the same arguments, over any history of calls mixing
positional, keyword and defaulted argument forms, cache hits and misses, compression settings and
shelved references (`call_and_shelve(...).get()`).  In particular two calls whose bound argument
values differ outside the ignore list never share a cached result.

Model: `JoblibModel.MemoryCache` — `argsId = H (encode H (embed E (filter_args …)))` composes the
model of `filter_args` (C07) with the model of the `Hasher` stream (C08); the store is a finite map
`(func id, args id) ↦ value`; `step` transcribes `_cached_call`, `call_and_shelve`,
`MemorizedResult.get`, `MemorizedFunc.call`, `check_call_in_cache`, `clear`, `Memory.clear`,
eviction (`reduce_size` / `clear_item`).  Compression is not a parameter of the logic (it only
changes the bytes of `output.pkl`; `load(dump(v)) = v` is C03's contract).

Quantifier reached: signatures of ANY length and kind mix (`WF`), plain / `async def` functions,
bound methods and `functools.partial` objects, any ignore list, any valuation of the argument
values into the universe of C08 (any nesting), EVERY history (any length) of calls, shelved gets,
forced calls, checks, clears, evictions and fresh processes, any number of cached functions sharing
the directory, every answer of a validation callback.

Hypotheses (each satisfiable, see the `example`s at the end):
* `NamesOK E` — identifiers are distinct strings, none is `*` / `**`;
* `Hashable H (embed E d)` for the argument dict `d` of every call of the history — the values are
  hashed WITHOUT the digest fallback (C08's `Plain`) and with < 2^32 memoised objects;
* `NoCollisionOn H (streams of the history)` — the digest has no collision AMONG THE FINITELY MANY
  KEYS OF THE HISTORY (`H` is NOT assumed injective: md5 is not);
* `Respects E fn` — the RESULT of the function is a pure function of its arguments as passed and
  ignores the ignored ones (what the function does TO its arguments in place, `Fn.effect`, is
  unconstrained: "the same arguments" are the arguments as passed);
* one cached callable per function identifier (two functions under one identifier: C12; all
  `functools.partial` objects share one identifier — `shared_function_id_stale_reference_counterexample`).

FULL STATEMENT: the same for ALL argument values of the universe.  It is FALSE on the
digest-fallback path: by F12 (C08, a known finding) a set / dict with mutually unorderable keys and
the container of its keys' own digests are hashed to one stream, so the second call is served the
first call's value — `fallback_collision_counterexample` below.  What is proved are the
`…_partial` theorems: the full statement for histories whose argument dicts are `Hashable`.
The composition is C07 ∘ C08: `agree_of_stream_eq` uses `core_eq_bind` (the lemma behind
`C07.filterArgs_eq_bind` / `filterArgsMethod_eq_bind`, so that bound methods and ignore lists are
covered) and `encode_inj` (the lemma behind `C08.encode_injective_partial`).
-/
namespace C02
open JoblibModel.FilterArgs JoblibModel.HashStream JoblibModel.MemoryCache

variable {R : Type}

/-- **Soundness of the key.**  Two calls of one function (or bound method) that Python accepts and
that get the same key bind the same Python values outside the ignore list (`AgreeOutside`: same
parameters; under every non-ignored parameter, values with equal canonical listings).  `H` is only
assumed collision-free on the two streams at hand. -/
theorem key_sound_partial (H : Bs → Bs) (E : Env) (cal : Callable) (ig : List Key) (c₁ c₂ : Call)
    (d₁ d₂ : Dict) (b₁ b₂ : List (Nat × Val)) (hn : NamesOK E) (hf : FuncLike cal)
    (hc₁ : CallWF c₁) (hc₂ : CallWF c₂)
    (hd₁ : argDict cal ig c₁ = .ok d₁) (hd₂ : argDict cal ig c₂ = .ok d₂)
    (hb₁ : bindOf cal c₁ = .ok b₁) (hb₂ : bindOf cal c₂ = .ok b₂)
    (hh₁ : Hashable H (embed E d₁)) (hh₂ : Hashable H (embed E d₂))
    (hH : NoCollisionOn H [stream H E d₁, stream H E d₂])
    (hk : argsId H E cal ig c₁ = argsId H E cal ig c₂) : AgreeOutside E cal.sig ig b₁ b₂ := by
  simp only [argsId, hd₁, hd₂, Except.ok.injEq] at hk
  exact agree_of_stream_eq hn hf hc₁ hc₂ hd₁ hd₂ hb₁ hb₂ hh₁ hh₂
    (hH _ (by simp) _ (by simp) hk)

/-- The same for `functools.partial` objects (and every callable `filter_args` does not inspect):
equal keys ⇒ the raw positional tuples and keyword dicts are the same Python values. -/
theorem key_sound_nonfunction_partial (H : Bs → Bs) (E : Env) (s : Sig) (pa : List Nat)
    (pk : List (Nat × Nat)) (ig : List Key) (c₁ c₂ : Call) (hn : NamesOK E)
    (hh₁ : Hashable H (embed E [(.star, .seq c₁.args), (.dstar, .map c₁.kwargs)]))
    (hh₂ : Hashable H (embed E [(.star, .seq c₂.args), (.dstar, .map c₂.kwargs)]))
    (hH : NoCollisionOn H [stream H E [(.star, .seq c₁.args), (.dstar, .map c₁.kwargs)],
      stream H E [(.star, .seq c₂.args), (.dstar, .map c₂.kwargs)]])
    (hk : argsId H E (.part s pa pk) ig c₁ = argsId H E (.part s pa pk) ig c₂) : RawAgree E c₁ c₂ := by
  simp only [argsId, argDict, Except.ok.injEq] at hk
  have hs := hH _ (by simp) _ (by simp) hk
  have hcan := canon_eq_of_stream_eq hh₁ hh₂ hs
  have nd : ∀ c : Call, (([(Key.star, Val.seq c.args), (Key.dstar, Val.map c.kwargs)] : Dict).map
      Prod.fst).Nodup := fun c => by simp
  exact ⟨canon_dict_lookup hcan (strKeys_items E _) (nodup_items hn (nd c₂))
      (mem_items (k := .star) (v := .seq c₁.args) (by simp))
      (mem_items (k := .star) (v := .seq c₂.args) (by simp)),
    canon_dict_lookup hcan (strKeys_items E _) (nodup_items hn (nd c₂))
      (mem_items (k := .dstar) (v := .map c₁.kwargs) (by simp))
      (mem_items (k := .dstar) (v := .map c₂.kwargs) (by simp))⟩

/-- **Every value handed back is the plain function's.**  For EVERY history `ops` run against one
(initially empty) cache directory — calls, `call_and_shelve`, `.get()` on shelved references, forced
calls, `check_call_in_cache`, `MemorizedFunc.clear`, `Memory.clear`, evictions, fresh processes, with
any number of cached functions and any validation-callback answers — every value returned by a
call, a forced call or a `.get()` whose arguments Python accepts equals `fn.body (bindOf fn.cal c)`:
what the undecorated function returns for those arguments AS PASSED (`Correct` at every step; the
functions may do anything to their arguments in place: `Fn.effect` is unconstrained).  It holds for
both versions of the code (`ver`: with and without the F30 repair of `MemorizedFunc.call`, which
changes how often the function runs, not what is returned). -/
theorem cached_call_correct_partial (ver : JoblibModel.MemoryCache.Version) (H : Bs → Bs) (E : Env) (ops : List (Op R))
    (hu : UnivOK H E (callsOf ops)) : AllCorrect ver H E (St.empty : St R) ops :=
  allCorrect_of_storeOK hu ops St.empty (storeOK_nil H E _) fun _ h => h

/-- … and from any store that satisfies the invariant (e.g. one left by an earlier history over the
same universe of calls): the cache directory may already be populated. -/
theorem cached_call_correct_from_partial (ver : JoblibModel.MemoryCache.Version) (H : Bs → Bs) (E : Env)
    (U : List (Fn R × Call)) (hu : UnivOK H E U) (st : St R) (hst : StoreOK H E U st.entries)
    (ops : List (Op R)) (hsub : ∀ p ∈ callsOf ops, p ∈ U) : AllCorrect ver H E st ops :=
  allCorrect_of_storeOK hu ops st hst hsub

/-- "Two calls whose bound argument values differ outside the ignore list never share a cached
result": if two calls of the history are filed under one entry, their arguments are the same. -/
theorem shared_entry_same_args_partial (H : Bs → Bs) (E : Env) (U : List (Fn R × Call))
    (hu : UnivOK H E U) (fn : Fn R) (c₁ c₂ : Call) (h₁ : (fn, c₁) ∈ U) (h₂ : (fn, c₂) ∈ U)
    (b₁ b₂ : List (Nat × Val)) (hb₁ : bindOf fn.cal c₁ = .ok b₁) (hb₂ : bindOf fn.cal c₂ = .ok b₂)
    (k : Bs) (hk₁ : argsId H E fn.cal fn.ig c₁ = .ok k) (hk₂ : argsId H E fn.cal fn.ig c₂ = .ok k) :
    SameArgs E fn.cal fn.ig c₁ c₂ b₁ b₂ := by
  obtain ⟨d₁, hd₁, e₁⟩ := argsId_ok hk₁
  obtain ⟨d₂, hd₂, e₂⟩ := argsId_ok hk₂
  have hs := hu.noCollision _ (mem_streamsOf h₁ hd₁) _ (mem_streamsOf h₂ hd₂) (e₁.symm.trans e₂)
  exact sameArgs_of_stream_eq hu.names (hu.cal _ h₁) (hu.calls _ h₁) (hu.calls _ h₂) hd₁ hd₂ hb₁ hb₂
    (hu.hashable _ h₁ _ hd₁) (hu.hashable _ h₂ _ hd₂) hs

/-- **A result is stored under the id computed from THIS call's arguments, and nowhere else.**  When
a call executes the function (either version of the code, any store), the value is afterwards found
under `(fn.fid, args id of this call)`, and the entry under every other id is what it was — whatever
other computations of the same cached function are under way (the id is a parameter of `compute`,
not state of the instance), which is why nested and overlapping computations can be run one after
the other in completion order. -/
theorem stored_under_own_id (ver : JoblibModel.MemoryCache.Version) (H : Bs → Bs) (E : Env) (st : St R)
    (fn : Fn R) (c : Call) (cb : Bool) (k : Bs) (v : R)
    (hk : argsId H E fn.cal fn.ig c = .ok k)
    (hx : (step ver H E st (.call fn c cb)).1 = .value v true) :
    dget (fn.fid, k) (step ver H E st (.call fn c cb)).2.entries = some v ∧
      ∀ id, id ≠ (fn.fid, k) →
        dget id (step ver H E st (.call fn c cb)).2.entries = dget id st.entries := by
  simp only [JoblibModel.MemoryCache.step, cachedCall, hk] at hx ⊢
  have hent : ∀ id, id ≠ (fn.fid, k) →
      dget id (isInCacheAndValid st (fn.fid, k) cb).2.entries = dget id st.entries := by
    intro id hne
    unfold isInCacheAndValid
    simp only
    split
    · split
      · rw [checkCode_entries]
      · split
        · rw [checkCode_entries]
        · show dget id (dpop (fn.fid, k) _) = _
          rw [dget_dpop_ne hne, checkCode_entries]
    · rw [checkCode_entries]
  cases hi : (isInCacheAndValid st (fn.fid, k) cb).1 with
  | some r => simp [hi] at hx
  | none =>
    simp only [hi] at hx ⊢
    cases hb : bindOf fn.cal c with
    | error e => simp [compute, hb] at hx
    | ok b =>
      simp only [compute, afterCall, hb] at hx ⊢
      simp only [Out.value.injEq, and_true] at hx
      subst hx
      refine ⟨dget_dset_self _ _ _, fun id hne => ?_⟩
      show dget id (dset (fn.fid, k) _ _) = _
      rw [dget_dset_ne hne, hent id hne]

/-! ## Functions that MUTATE their arguments

`Fn.effect` (what the body leaves in the `args` / `kwargs` objects) is arbitrary in every theorem above:
`Correct` compares the value handed back with `fn.body` of the arguments bound from the call AS PASSED
(`bindOf fn.cal c`), `Respects` is about `fn.body` alone, and `UnivOK` asks hashability only of the
arguments as passed — `cached_call_correct_partial` IS the statement for mutating functions ("the value
returned is f's result on the arguments as passed").  The next theorem says why nothing more is
needed; the variant that keys a forced call after the body breaks C02 as well
(`key_after_call_wrong_value_counterexample`). -/

/-- **What a function does to its arguments is invisible to the cache** (the code as it is, either
version): replace the effect on the arguments of every function of a history by ANY other
(`Op.withEffects e`; e.g. by "leaves them alone") — every output of the history (values, executed or
served, check answers, errors) and the final cache directory are the same.  The keys are computed
from the arguments as passed, before the body runs. -/
theorem effect_on_arguments_irrelevant (ver : JoblibModel.MemoryCache.Version) (H : Bs → Bs) (E : Env)
    (e : Fn R → Call → Call) (ops : List (Op R)) (st : St R) :
    run ver H E st (ops.map (Op.withEffects e)) = run ver H E st ops ∧
      exec ver H E st (ops.map (Op.withEffects e)) = exec ver H E st ops :=
  run_exec_withEffects ver H E e ops st

/-- `cached_call_correct_partial` for functions that mutate their arguments, spelled out: take a
history whose functions leave their arguments alone and satisfy the hypotheses, and let every function
do ANYTHING to its arguments in place (`e`): every value handed back is still the plain function's
result on the arguments AS PASSED. -/
theorem cached_call_correct_mutating_partial (ver : JoblibModel.MemoryCache.Version) (H : Bs → Bs) (E : Env)
    (e : Fn R → Call → Call) (ops : List (Op R))
    (hu : UnivOK H E (callsOf (ops.map (Op.withEffects e)))) :
    AllCorrect ver H E (St.empty : St R) (ops.map (Op.withEffects e)) :=
  cached_call_correct_partial ver H E _ hu

/-- **Keying a forced call after the body hands out another call's value** (variant `Cfg.keyAfterCall`,
seeded change C06-r4-m3; `fnSort` returns its list argument as passed and sorts it in place):
`cf.call([3, 1, 2])` files its result under the key of `[1, 2, 3]`, and `cf([1, 2, 3])` is then served
`[3, 1, 2]`'s result — not what the plain function returns for `[1, 2, 3]`. -/
theorem key_after_call_wrong_value_counterexample :
    runC ⟨.fixed, true⟩ hId envMut St.empty [.force fnSort ⟨[0], []⟩, .call fnSort ⟨[1], []⟩ true] =
      [.value [(0, .one 0)] true, .value [(0, .one 0)] false] ∧
    bindOf fnSort.cal ⟨[1], []⟩ = .ok [(0, .one 1)] ∧ fnSort.body [(0, .one 1)] = [(0, .one 1)] ∧
    run .fixed hId envMut St.empty [.force fnSort ⟨[0], []⟩, .call fnSort ⟨[1], []⟩ true] =
      [.value [(0, .one 0)] true, .value [(0, .one 1)] true] := by
  decide +kernel

/-! ## The digest fallback (F12) makes the full statement false -/

/-- `def f(a)`; value 0 is `{1, 'a'}`, value 1 is the set of the two digest strings
`{hash(1), hash('a')}`. -/
def envF12 (H : Bs → Bs) : Env where
  val := fun i => if i = 0 then .set [.int 1, .str [97]]
    else .set [.str (H (encode H (.int 1))), .str (H (encode H (.str [97])))]
  name := fun n => [97 + n]

def fnF12 : Fn (List (Nat × Val)) := ⟨0, .func [⟨0, .posKw, none⟩], [], fun b => b, fun c => c⟩

/-- **Counterexample to the full statement** (whatever the digest `H` and the version of the code): `f({1, 'a'})` then
`f({hash(1), hash('a')})` — two different argument values — get the same key (F12), so the second
call is not executed and is handed the FIRST call's bound arguments. -/
theorem fallback_collision_counterexample (ver : JoblibModel.MemoryCache.Version) (H : Bs → Bs) :
    (envF12 H).val 0 ≠ (envF12 H).val 1 ∧
    run ver H (envF12 H) St.empty [.call fnF12 ⟨[0], []⟩ true, .call fnF12 ⟨[1], []⟩ true] =
      [.value [(0, .one 0)] true, .value [(0, .one 0)] false] ∧
    bindOf fnF12.cal ⟨[1], []⟩ = .ok [(0, .one 1)] := by
  refine ⟨by simp [envF12], ?_, by decide⟩
  have h1 : argDict fnF12.cal fnF12.ig ⟨[0], []⟩ = .ok [(.name 0, .one 0)] := by decide
  have h2 : argDict fnF12.cal fnF12.ig ⟨[1], []⟩ = .ok [(.name 0, .one 1)] := by decide
  have hs : stream H (envF12 H) [(.name 0, .one 0)] = stream H (envF12 H) [(.name 0, .one 1)] := rfl
  have b1 : bindOf fnF12.cal ⟨[0], []⟩ = .ok [(0, .one 0)] := by decide
  have e1 : cachedCall H (envF12 H) St.empty fnF12 ⟨[0], []⟩ true =
      .ok (.ok ([(0, .one 0)], true),
        ⟨[0], [((0, H (stream H (envF12 H) [(.name 0, .one 0)])), [(0, .one 0)])]⟩) := by
    simp only [cachedCall, argsId, h1, isInCacheAndValid, checkCode, St.empty, compute, afterCall, b1]
    rfl
  have e2 : cachedCall H (envF12 H)
      ⟨[0], [((0, H (stream H (envF12 H) [(.name 0, .one 0)])), [(0, .one 0)])]⟩ fnF12 ⟨[1], []⟩ true =
      .ok (.ok ([(0, .one 0)], false),
        ⟨[0], [((0, H (stream H (envF12 H) [(.name 0, .one 0)])), [(0, .one 0)])]⟩) := by
    simp only [cachedCall, argsId, h2, ← hs, isInCacheAndValid, checkCode]
    have : fnF12.fid = 0 := rfl
    simp [this, dget]
  simp only [run, JoblibModel.MemoryCache.step, e1, e2]

/-! ## One function identifier for several callables makes shelved references ambiguous (F35)

`UnivOK.fids` (one cached callable per function identifier) is needed: every `functools.partial`
object gets the identifier `functools/unknown` (F32), and a `MemorizedResult` names its value by
(function id, args id) alone — `.get()` does not look at `func_code.py`. -/

/-- `functools.partial(g, 1)` and `functools.partial(g, 2)` for `def g(a)`: the same function id -/
def fnPart1 : Fn (List (Nat × Val)) := ⟨7, .part [⟨0, .posKw, none⟩] [1] [], [], fun b => b, fun c => c⟩
def fnPart2 : Fn (List (Nat × Val)) := ⟨7, .part [⟨0, .posKw, none⟩] [2] [], [], fun b => b, fun c => c⟩

/-- **Counterexample without `fids`** (either version of the code, any digest): `r = p1.call_and_shelve()`;
then `p2()` — its "source" differs, so `_check_previous_func_code` wipes the shared directory
(`clearFn`) and `p2`'s result is stored under the same (function id, args id); `r.get()` then
returns `p2`'s value `g(2)`, not `g(1)`. -/
theorem shared_function_id_stale_reference_counterexample (ver : JoblibModel.MemoryCache.Version)
    (H : Bs → Bs) :
    run ver H envEx St.empty
        [.shelve fnPart1 ⟨[], []⟩ true, .clearFn fnPart2, .call fnPart2 ⟨[], []⟩ true, .get fnPart1 ⟨[], []⟩] =
      [.ref true, .done, .value [(0, .one 2)] true, .value [(0, .one 2)] false] ∧
    bindOf fnPart1.cal ⟨[], []⟩ = .ok [(0, .one 1)] := by
  refine ⟨?_, by decide⟩
  have b1 : bindOf fnPart1.cal ⟨[], []⟩ = .ok [(0, .one 1)] := by decide
  have b2 : bindOf fnPart2.cal ⟨[], []⟩ = .ok [(0, .one 2)] := by decide
  have f1 : fnPart1.fid = 7 := rfl
  have f2 : fnPart2.fid = 7 := rfl
  have a1 : argDict fnPart1.cal fnPart1.ig ⟨[], []⟩ = .ok [(.star, .seq []), (.dstar, .map [])] := rfl
  have a2 : argDict fnPart2.cal fnPart2.ig ⟨[], []⟩ = .ok [(.star, .seq []), (.dstar, .map [])] := rfl
  simp only [run, JoblibModel.MemoryCache.step, cachedCall, argsId, a1, a2, isInCacheAndValid, checkCode,
    St.empty, compute, afterCall, b1, b2, f1, f2]
  simp [dget, dset, fnPart1, fnPart2]

/-! ### Values handed out and values kept (seeded change seed5-C02-m2)

The model's values have no identity: `Out.value v _` IS the value, and nothing a consumer does to the
Python object it was handed can reach the model's store — "no two hand-outs alias, and none aliases the
store" is true by construction here and is NOT what these theorems establish.  What the model does say is
what every hand-out must EQUAL: dereferencing a reference reads the store and nothing else, leaves it as it
was, and so answers the same however often and whoever asked before.  That the real objects handed out by
`__call__` (hit), `call`, `call_and_shelve().get()` and a kept / pickled `MemorizedResult.get()` are
independent of each other and of anything the cache keeps is established by the CORRESPONDENCE and the
oracle (harness/memcache.py: histories in which the consumer works in place — append, sort, pop, clear,
reverse — on every value it is handed, then asks again; signature `handed-out-value-aliased:<path>`). -/

/-- **Dereferencing a reference leaves the cache directory as it was** (`MemorizedResult.get` only reads)
and what it answers is a function of the entry under the reference's id alone. FULL. -/
theorem get_reads_only (ver : JoblibModel.MemoryCache.Version) (H : Bs → Bs) (E : Env) (st : St R)
    (fn : Fn R) (c : Call) :
    (step ver H E st (.get fn c)).2 = st ∧
      ∀ k, argsId H E fn.cal fn.ig c = .ok k →
        (step ver H E st (.get fn c)).1 =
          (match dget (fn.fid, k) st.entries with | some v => .value v false | none => .keyError) := by
  constructor
  · simp only [JoblibModel.MemoryCache.step]
    split
    · rfl
    · split <;> rfl
  · intro k hk
    simp only [JoblibModel.MemoryCache.step, hk]
    cases hd : dget (fn.fid, k) st.entries <;> rfl

/-- **A reference dereferenced `n` times answers the same every time** — the value the store holds under
its id (or `KeyError` every time) — and leaves the store unchanged: no `get` can depend on an earlier
`get` (or on what its caller did with the answer). FULL: either version, any store, any `n`. -/
theorem get_repeatable (ver : JoblibModel.MemoryCache.Version) (H : Bs → Bs) (E : Env) (st : St R)
    (fn : Fn R) (c : Call) (n : Nat) :
    run ver H E st (List.replicate n (.get fn c)) = List.replicate n (step ver H E st (.get fn c)).1 ∧
      exec ver H E st (List.replicate n (.get fn c)) = st := by
  induction n with
  | zero => exact ⟨rfl, rfl⟩
  | succ n ih =>
    have h := (get_reads_only ver H E st fn c).1
    simp only [List.replicate_succ, run, exec, h]
    exact ⟨by rw [ih.1], ih.2⟩

/-- **What a hit hands out is the stored value, and serving it leaves the entries as they were**: a call
that is served (`executed = false`) returns exactly what `get` on a reference to the same call returns
from the state it leaves, and a second identical call is served the same value. FULL. -/
theorem served_value_is_the_stored_one (ver : JoblibModel.MemoryCache.Version) (H : Bs → Bs) (E : Env) (st : St R)
    (fn : Fn R) (c : Call) (v : R)
    (hx : (step ver H E st (.call fn c true)).1 = .value v false) :
    (step ver H E st (.call fn c true)).2 = st ∧ (step ver H E st (.get fn c)).1 = .value v false := by
  simp only [JoblibModel.MemoryCache.step, cachedCall] at hx ⊢
  cases hk : argsId H E fn.cal fn.ig c with
  | error e => simp [hk] at hx
  | ok k =>
    simp only [hk] at hx ⊢
    unfold isInCacheAndValid checkCode at hx ⊢
    by_cases hc : fn.fid ∈ st.coded
    · simp only [hc, if_true] at hx ⊢
      cases hd : dget (fn.fid, k) st.entries with
      | none =>
        simp only [hd] at hx
        unfold compute at hx
        cases hb : bindOf fn.cal c <;> simp [hb] at hx
      | some w =>
        simp only [hd] at hx ⊢
        simp_all
    · simp only [hc, if_false] at hx
      unfold compute at hx
      cases hb : bindOf fn.cal c <;> simp [hb] at hx

/-! ## Non-vacuity: the hypotheses hold for a non-trivial history

`def f(a, b=5, *args, **kw)` cached with `ignore=['b']` and returning its non-ignored bound arguments
(`canonBody`, which `Respects` them); a dict argument and the same dict built in the other
insertion order; keyword / positional / defaulted call forms; a shelved reference, a check, a
validation callback saying no, a clear, a fresh process (`histEx`, 10 operations, 7 hashed calls);
a digest `hEx` that is NOT injective. -/

example : UnivOK hEx envEx (callsOf histEx) := univOK_histEx
example : hEx [1] = hEx [2] ∧ ([1] : Bs) ≠ [2] := hEx_not_injective
example : AllCorrect .fixed hEx envEx St.empty histEx :=
  cached_call_correct_partial .fixed hEx envEx histEx univOK_histEx
example (fid : Nat) (s : Sig) (ig : List Key) (eff : Call → Call) :
    Respects envEx ⟨fid, .func s, ig, canonBody envEx s ig, eff⟩ :=
  respects_canonBody envEx fid s ig eff

end C02
