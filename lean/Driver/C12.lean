import JoblibModel.FuncCode
import JoblibModel.IOUtil
/-! Driver for C12: a stateful interpreter of histories over `JoblibModel.FuncCode.step`.

  reset <old|fixed>          model of the pinned tree / of the tree with the F10 repair   → ok
  def <obj> <src> <0|1>      a `def` (1) or `lambda` (0) creating object <obj> with source <src> → ok
  swap <obj> <src>           → ok | notlive
  call <obj> <a>             → val <x|h> <src> <a>  (the value is (source, argument)) | notlive
  check <obj> <a>            → flag <0|1> | notlive
  clearfn <obj>              → ok | notlive
  clearall | fresh           → ok

Anything else, and any request before the first `reset`, is answered `bad-op`. -/
open JoblibModel JoblibModel.FuncCode JoblibModel.IOUtil

abbrev RV := Nat × Nat

structure DS where
  ver : Option Version := none
  st : State RV := {}

def sem : Src → Nat → RV := fun k a => (k, a)

def showOut : Out RV → String
  | .value r x => joinSp ["val", if x then "x" else "h", toString r.1, toString r.2]
  | .flag b => if b then "flag 1" else "flag 0"
  | .done => "ok"
  | .notLive => "notlive"

def pOp : List String → Option Op
  | ["def", o, k, n] => do
    let named ← (match n with | "0" => some false | "1" => some true | _ => none)
    pure (.define (← o.toNat?) (← k.toNat?) named)
  | ["swap", o, k] => do pure (.swap (← o.toNat?) (← k.toNat?))
  | ["call", o, a] => do pure (.call (← o.toNat?) (← a.toNat?))
  | ["check", o, a] => do pure (.check (← o.toNat?) (← a.toNat?))
  | ["clearfn", o] => do pure (.clearFn (← o.toNat?))
  | ["clearall"] => some .clearAll
  | ["fresh"] => some .fresh
  | _ => none

def handle (s : DS) (line : String) : DS × String :=
  match tokens line with
  | ["reset", "old"] => ({ ver := some .old }, "ok")
  | ["reset", "fixed"] => ({ ver := some .fixed }, "ok")
  | ts =>
    match s.ver, pOp ts with
    | some ver, some op =>
      let r := step ver sem s.st op
      ({ s with st := r.2 }, showOut r.1)
    | _, _ => (s, "bad-op")

def main : IO Unit := stateLoop ({} : DS) handle
