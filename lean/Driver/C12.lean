import JoblibModel.FuncCode
import JoblibModel.FuncCodeFault
import JoblibModel.FuncCodeText
import JoblibModel.IOUtil
/-! Driver for C12: a stateful interpreter of histories over `JoblibModel.FuncCode.step`.

  reset <f10:0|1> <f38:0|1> <wkl:0|1> <f46:0|1> <wfr:0|1>
                             which tree is modelled: f10 / f38 / f46: 1 = with that repair; wkl: 1 = the writer
                             key contains the location (the code as it is), 0 = `writer_key = func_id`; wfr: 1 = a
                             failing write of func_code.py raises to the caller (the code as it is), 0 = it is
                             swallowed (`JoblibModel.FuncCodeFault`)                                  → ok
  def <obj> <src> <0|1> <loc>
                             a `def` (1) or `lambda` (0): function <obj>, code object (<obj>, <src>),
                             wrapper <obj> of a Memory on directory <loc> (canonical spelling)          → ok
  wrap <w> <obj> <key> <dir> another MemorizedFunc on function <obj>, of a Memory whose location string is
                             <key>, denoting directory <dir> (<key> = <dir>: the canonical spelling)  → ok | notlive
  swap <obj> <id> <src>      <obj>.__code__ = the code object (<id>, <src>)                   → ok | notlive
  call <w> <a>               → val <x|h> <src> <a>  (the value is (source, argument)) | notlive
  check <w> <a>              → flag <0|1> | notlive
  clearfn <w>                → ok | notlive
  damage <dir> <delete|unreadable|other>                                                       → ok
  clearall <dir>             Memory.clear() of a Memory on directory <dir>                     → ok
  fresh                      → ok
  fault <open|write> <call …|check …|clearfn …|any other operation>
                             the operation runs while the next `open(func_code.py, "wb")` / the `write` after it
                             fails (one-shot, armed for this operation only)        → the operation's reply | raised

Text layer (`JoblibModel.FuncCodeText`; stateless, allowed at any time; a text is its code points in decimal, `-` = empty):
  text-write <first_line> <cp>*       what `_write_func_code` writes                      → text <cp>*
  text-extract <cp>*                  `extract_first_line`                                → ok <first_line> <cp>* | valueerror | untracked
  text-compare <n> <cp>{n} <cp>*      `old_func_code == func_code` for the stored text (first n code points) and the
                                      live source (the rest)                              → same | changed | unreadable | untracked

Anything else, and any request before the first `reset`, is answered `bad-op`. -/
open JoblibModel JoblibModel.FuncCode JoblibModel.IOUtil

abbrev RV := Nat × Nat

structure DS where
  cfg : Option Cfg := none
  swallow : Bool := false
  st : State RV := {}

def sem : Src → Nat → RV := fun k a => (k, a)

def showOut : Out RV → String
  | .value r x => joinSp ["val", if x then "x" else "h", toString r.1, toString r.2]
  | .flag b => if b then "flag 1" else "flag 0"
  | .done => "ok"
  | .notLive => "notlive"

def pBit : String → Option Bool
  | "0" => some false
  | "1" => some true
  | _ => none

def pOp : List String → Option Op
  | ["def", o, k, n, l] => do pure (.define (← o.toNat?) (← k.toNat?) (← pBit n) (← l.toNat?))
  | ["wrap", w, o, k, d] => do pure (.wrap (← w.toNat?) (← o.toNat?) (← k.toNat?) (← d.toNat?))
  | ["swap", o, i, k] => do pure (.swap (← o.toNat?) (← i.toNat?, ← k.toNat?))
  | ["call", o, a] => do pure (.call (← o.toNat?) (← a.toNat?))
  | ["check", o, a] => do pure (.check (← o.toNat?) (← a.toNat?))
  | ["clearfn", o] => do pure (.clearFn (← o.toNat?))
  | ["damage", d, "delete"] => do pure (.damage (← d.toNat?) .delete)
  | ["damage", d, "unreadable"] => do pure (.damage (← d.toNat?) .unreadable)
  | ["damage", d, "other"] => do pure (.damage (← d.toNat?) .other)
  | ["clearall", d] => do pure (.clearAll (← d.toNat?))
  | ["fresh"] => some .fresh
  | _ => none

def pFault : String → Option WriteFault
  | "open" => some .onOpen
  | "write" => some .onWrite
  | _ => none

def pText : List String → Option FuncCodeText.Text
  | ["-"] => some []
  | ts => ts.mapM (·.toNat?)

def showText : FuncCodeText.Text → String
  | [] => "-"
  | t => joinSp (t.map toString)

def handleText : List String → Option String
  | "text-write" :: n :: ts => do
    let n ← n.toInt?
    let t ← if ts.isEmpty then some [] else pText ts
    pure (joinSp ["text", showText (FuncCodeText.writeText n t)])
  | "text-extract" :: ts => do
    let t ← if ts.isEmpty then some [] else pText ts
    match FuncCodeText.extractFirstLine t with
    | .ok (c, n) => pure (joinSp ["ok", toString n, showText c])
    | .valueError => pure "valueerror"
    | .untracked => pure "untracked"
  | "text-compare" :: n :: ts => do
    let n ← n.toNat?
    if ts.length < n then none
    let stored ← (ts.take n).mapM (·.toNat?)
    let live ← (ts.drop n).mapM (·.toNat?)
    match FuncCodeText.compareStored stored live with
    | .same => pure "same"
    | .changed => pure "changed"
    | .unreadable => pure "unreadable"
    | .untracked => pure "untracked"
  | _ => none

def handle (s : DS) (line : String) : DS × String :=
  match tokens line with
  | ts@("text-write" :: _) | ts@("text-extract" :: _) | ts@("text-compare" :: _) =>
    (s, (handleText ts).getD "bad-op")
  | ["reset", a, b, c, d, e] =>
    match pBit a, pBit b, pBit c, pBit d, pBit e with
    | some a, some b, some c, some d, some e => ({ cfg := some ⟨a, b, c, d⟩, swallow := !e }, "ok")
    | _, _, _, _, _ => (s, "bad-op")
  | "fault" :: k :: ts =>
    match s.cfg, pFault k, pOp ts with
    | some cfg, some f, some op =>
      let r := stepF cfg s.swallow sem s.st (.faulty f op)
      ({ s with st := r.2 }, match r.1 with | .out o => showOut o | .raised => "raised")
    | _, _, _ => (s, "bad-op")
  | ts =>
    match s.cfg, pOp ts with
    | some cfg, some op =>
      let r := step cfg sem s.st op
      ({ s with st := r.2 }, showOut r.1)
    | _, _ => (s, "bad-op")

def main : IO Unit := stateLoop ({} : DS) handle
