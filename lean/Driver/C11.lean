import JoblibModel.Store
import JoblibModel.StoreIO
import JoblibModel.IOUtil
import JoblibModel.StoreObjects
/-! Driver for C11 (model `JoblibModel.Store`).

Request: `par ORDER FIRSTLINE SRC0 SRC1 | PRE | PRE … || THREAD | THREAD … || SCHED`
* `PRE` — processes run one after the other first (syntax of Driver/C05; `-` = none);
* `THREAD` — the concurrent users (same syntax, no `kill`);
* `SCHED` — `t.t.t…`: the thread that makes the next system call, one entry per call (`-` = empty).
Reply: `t:op;t:op;… => STATE | STATE | …` with `STATE` = `ok v<ver>.<arg>` | `ok done` | `raise <Class>` |
`running@<next op>`; or `bad-op` (malformed, or the schedule names a thread that has finished).

Request: `objs ORDER FIRSTLINE SRC0 SRC1 | STEP | STEP …` — a history of OBJECTS (model `JoblibModel.StoreObjects`), every
step run to completion: `new:p=0,me=0` | `call:p=0,g=0,me=0,a=3` | `clear:p=0,me=0` | `fclear:p=0,g=0,me=0` |
`reduce:p=0,me=0,victims=5.4.3` | `iclear:p=0,me=0,a=3` (`p` process, `g` function object, `me` the object).
Reply: `R | R | …` with `R` = `ok v<ver>.<arg> exec=<0|1>` | `ok done` | `raise <Class>`. -/
open JoblibModel JoblibModel.Store JoblibModel.StoreIO JoblibModel.IOUtil JoblibModel.StoreObjects

def runPre (env : Env) : List String → FS → Option FS
  | [], fs => some fs
  | p :: rest, fs =>
    if p.trimAscii.toString = "-" then runPre env rest fs else
    match parseProc env p.trimAscii.toString with
    | some (ps, l) => runPre env rest (runOne env.order ps l fs).2
    | none => none

def parseEnv (hd : String) : Option Env :=
  match tokens hd with
  | ["par", order, fl, s0, s1] => do
      let o ← parseNames order
      let f ← fl.toNat?
      let b0 ← parseHex s0
      let b1 ← parseHex s1
      pure ⟨o, f, [b0, b1]⟩
  | _ => none

def parseStep (env : Env) (s : String) : Option Step :=
  match s.splitOn ":" with
  | [kind, args] => do
    let l ← parseKVs args
    let me ← kvNat l "me"
    let p ← kvNat l "p"
    let c : Cfg := { codec := mkCodec false env.firstLine env.srcs, me, ver := 0, rank := rankOf env.order }
    if kind = "new" then pure (.new p c)
    else if kind = "call" then do
      let g ← kvNat l "g"
      let a ← kvNat l "a"
      pure (.call p g c a)
    else if kind = "clear" then pure (.clear p c)
    else if kind = "fclear" then do
      let g ← kvNat l "g"
      pure (.fclear p g c)
    else if kind = "reduce" then do
      let v ← (kv l "victims").bind parseNats
      pure (.reduce p c v)
    else if kind = "iclear" then do
      let a ← kvNat l "a"
      pure (.iclear p c a)
    else none
  | _ => none

def reportToString : Report → String
  | .value v e => s!"ok {valToString v} exec={if e then 1 else 0}"
  | .done => "ok done"
  | .raised e => "raise " ++ errToString e

def handleObjs (line : String) : String :=
  match line.trimAscii.toString.splitOn " | " with
  | hd :: steps =>
    match tokens hd with
    | "objs" :: rest =>
      match parseEnv (" ".intercalate ("par" :: rest)) with
      | some env =>
        match steps.mapM (fun s => parseStep env s.trimAscii.toString) with
        | some sts => " | ".intercalate ((history [] FS.empty sts).map reportToString)
        | none => "bad-op"
      | none => "bad-op"
    | _ => "bad-op"
  | [] => "bad-op"

def handle (line : String) : String :=
  if line.trimAscii.toString.startsWith "objs " then handleObjs line else
  match line.trimAscii.toString.splitOn " || " with
  | [a, b, c] =>
    match a.splitOn " | " with
    | hd :: pre =>
      match parseEnv hd with
      | some env =>
        match runPre env pre FS.empty,
              (b.splitOn " | ").mapM (fun s => (parseProc env s.trimAscii.toString).map (progOf ·.1)),
              parseNats c.trimAscii.toString with
        | some fs, some threads, some sched =>
          match runPar threads fs sched with
          | some (log, th, _) =>
            ";".intercalate (log.map fun x => s!"{x.1}:{opToString env.order x.2.1 x.2.2}") ++ " => " ++
              " | ".intercalate (th.map threadState)
          | none => "bad-op"
        | _, _, _ => "bad-op"
      | none => "bad-op"
    | [] => "bad-op"
  | _ => "bad-op"

def main : IO Unit := lineLoop handle
