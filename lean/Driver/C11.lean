import JoblibModel.Store
import JoblibModel.StoreIO
import JoblibModel.IOUtil
/-! Driver for C11 (model `JoblibModel.Store`).

Request: `par ORDER FIRSTLINE SRC0 SRC1 | PRE | PRE … || THREAD | THREAD … || SCHED`
* `PRE` — processes run one after the other first (syntax of Driver/C05; `-` = none);
* `THREAD` — the concurrent users (same syntax, no `kill`);
* `SCHED` — `t.t.t…`: the thread that makes the next system call, one entry per call (`-` = empty).
Reply: `t:op;t:op;… => STATE | STATE | …` with `STATE` = `ok v<ver>.<arg>` | `ok done` | `raise <Class>` |
`running@<next op>`; or `bad-op` (malformed, or the schedule names a thread that has finished). -/
open JoblibModel JoblibModel.Store JoblibModel.StoreIO JoblibModel.IOUtil

def runPre (env : Env) : List String → FS → Option FS
  | [], fs => some fs
  | p :: rest, fs =>
    if p.trimAscii.toString = "-" then runPre env rest fs else
    match parseProc env p.trimAscii.toString with
    | some (ps, l) => runPre env rest (runOne env.order ps l fs).2
    | none => none

def parseEnv (hd : String) : Option Env :=
  match tokens hd with
  | ["par", order, fl, s0, s1] => do
      let o ← parseNames order
      let f ← fl.toNat?
      let b0 ← parseHex s0
      let b1 ← parseHex s1
      pure ⟨o, f, [b0, b1]⟩
  | _ => none

def handle (line : String) : String :=
  match line.trimAscii.toString.splitOn " || " with
  | [a, b, c] =>
    match a.splitOn " | " with
    | hd :: pre =>
      match parseEnv hd with
      | some env =>
        match runPre env pre FS.empty,
              (b.splitOn " | ").mapM (fun s => (parseProc env s.trimAscii.toString).map (progOf ·.1)),
              parseNats c.trimAscii.toString with
        | some fs, some threads, some sched =>
          match runPar threads fs sched with
          | some (log, th, _) =>
            ";".intercalate (log.map fun x => s!"{x.1}:{opToString env.order x.2.1 x.2.2}") ++ " => " ++
              " | ".intercalate (th.map threadState)
          | none => "bad-op"
        | _, _, _ => "bad-op"
      | none => "bad-op"
    | [] => "bad-op"
  | _ => "bad-op"

def main : IO Unit := lineLoop handle
