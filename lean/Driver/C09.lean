import JoblibModel.ParallelDriver
import JoblibModel.EvalExpr
/-! Driver for C09.

* scenarios of harness/ctl.py → event log of the M1 model (see JoblibModel/ParallelDriver.lean): a line of integers, or `AB …`;
* the `eval_expr` / `pre_dispatch` model (JoblibModel/EvalExpr.lean):
  * `evalexpr <AST>`            → `ok <value>` | `raise <Class>` | `untracked`
  * `amount <AST>`              → `all` | `amount <n>` | `raise <Class>` | `untracked`   (eval_expr, `int()`, `islice`)
  * `parse <text>`              → `ok <AST>` | `syntax-error` | `abstain`
  * `subst <text> <n_jobs>`     → `<text>`                                               (`.replace("n_jobs", str(n_jobs))`)
  * `predispatch <pd> <n_jobs>` → as `amount`; `<pd>` = `T <text>` | `I <int>` | `F <float>` | `B 0|1` | `Y` (bytes) | `O` (other)

  `<text>` = code points in decimal joined by `.`, `e` for the empty text.
  `<AST>` (prefix): `I n` | `F m e` | `F inf` | `F -inf` | `F nan` | `B 0|1` | `S <text>` | `Y <text>` | `N` | `E` | `C`
  | `b <Op> <AST> <AST>` | `u <Op> <AST>` | `O <Kind>` with the `ast` class names.
Malformed requests → `bad-op`. -/
namespace Driver.C09
open JoblibModel.EvalExpr JoblibModel.IOUtil

def binOps : List (String × BinOp) :=
  [("Add", .add), ("Sub", .sub), ("Mult", .mult), ("Div", .div), ("FloorDiv", .floorDiv), ("Mod", .mod), ("Pow", .pow),
   ("MatMult", .matMult), ("LShift", .lShift), ("RShift", .rShift), ("BitOr", .bitOr), ("BitXor", .bitXor),
   ("BitAnd", .bitAnd)]

def unOps : List (String × UnOp) := [("USub", .usub), ("UAdd", .uadd), ("Not", .not), ("Invert", .invert)]

def kinds : List (String × NodeKind) :=
  [("Name", .name), ("Call", .call), ("Attribute", .attribute), ("Subscript", .subscript), ("Compare", .compare),
   ("BoolOp", .boolOp), ("IfExp", .ifExp), ("Lambda", .lambda), ("Tuple", .tuple), ("List", .list), ("Set", .set),
   ("Dict", .dict), ("ListComp", .listComp), ("SetComp", .setComp), ("DictComp", .dictComp),
   ("GeneratorExp", .generatorExp), ("Await", .await), ("Yield", .yield), ("YieldFrom", .yieldFrom),
   ("JoinedStr", .joinedStr), ("FormattedValue", .formattedValue), ("NamedExpr", .namedExpr), ("Starred", .starred),
   ("Slice", .slice)]

def nameOf {α : Type} [BEq α] (tbl : List (String × α)) (x : α) : String :=
  match tbl.find? (fun p => p.2 == x) with
  | some p => p.1
  | none => "?"

instance : BEq BinOp := ⟨fun a b => decide (a = b)⟩
instance : BEq UnOp := ⟨fun a b => decide (a = b)⟩
instance : BEq NodeKind := ⟨fun a b => decide (a = b)⟩

def seq? (s : String) : Option (List Nat) :=
  if s = "e" then some [] else (s.splitOn ".").mapM (·.toNat?)

def text? (s : String) : Option Text := do
  let l ← seq? s
  if l.any (fun c => !(Nat.isValidChar c)) then none
  pure (l.map Char.ofNat)

def showSeq (l : List Nat) : String := if l.isEmpty then "e" else ".".intercalate (l.map toString)
def showText (t : Text) : String := showSeq (t.map Char.toNat)

def flt? : List String → Option (Flt × List String)
  | "inf" :: r => some (.inf, r)
  | "-inf" :: r => some (.ninf, r)
  | "nan" :: r => some (.nan, r)
  | m :: e :: r => do
    let m ← m.toInt?
    let e ← e.toInt?
    -- canonical form only: `m` odd, or `0 0`
    if (m = 0 ∧ e ≠ 0) ∨ (m ≠ 0 ∧ m % 2 = 0) then none
    if m = 0 then pure (.fin 0 0, r) else pure (.fin m e, r)
  | _ => none

def ast? : Nat → List String → Option (Ast × List String)
  | 0, _ => none
  | f + 1, toks =>
    match toks with
    | "I" :: n :: r => (n.toInt?).map (fun n => (.const (.int n), r))
    | "F" :: r => (flt? r).map (fun (x, r) => (.const (.flt x), r))
    | "B" :: "0" :: r => some (.const (.bool false), r)
    | "B" :: "1" :: r => some (.const (.bool true), r)
    | "S" :: s :: r => (seq? s).map (fun l => (.const (.str l), r))
    | "Y" :: s :: r => (seq? s).map (fun l => (.const (.bytes l), r))
    | "N" :: r => some (.const .none, r)
    | "E" :: r => some (.const .ellipsis, r)
    | "C" :: r => some (.const .cplx, r)
    | "b" :: op :: r => do
      let op ← binOps.lookup op
      let (l, r) ← ast? f r
      let (rr, r) ← ast? f r
      pure (.binOp op l rr, r)
    | "u" :: op :: r => do
      let op ← unOps.lookup op
      let (e, r) ← ast? f r
      pure (.unaryOp op e, r)
    | "O" :: k :: r => (kinds.lookup k).map (fun k => (.other k, r))
    | _ => none

def showFlt : Flt → String
  | .fin m e => s!"{m} {e}"
  | .inf => "inf"
  | .ninf => "-inf"
  | .nan => "nan"

def showConst : Const → String
  | .int n => s!"I {n}"
  | .flt x => "F " ++ showFlt x
  | .bool b => if b then "B 1" else "B 0"
  | .str s => "S " ++ showSeq s
  | .bytes s => "Y " ++ showSeq s
  | .none => "N"
  | .ellipsis => "E"
  | .cplx => "C"

def showAst : Ast → String
  | .const c => showConst c
  | .binOp op l r => s!"b {nameOf binOps op} {showAst l} {showAst r}"
  | .unaryOp op e => s!"u {nameOf unOps op} {showAst e}"
  | .other k => s!"O {nameOf kinds k}"

def showExc : Exc → String
  | .ValueError => "ValueError" | .TypeError => "TypeError" | .KeyError => "KeyError" | .SyntaxError => "SyntaxError"
  | .ZeroDivisionError => "ZeroDivisionError" | .OverflowError => "OverflowError"

def showRes : Res Val → String
  | .ok v => "ok " ++ showConst v
  | .raise e => "raise " ++ showExc e
  | .untracked => "untracked"

def showResolved : Resolved → String
  | .all => "all"
  | .amount n => s!"amount {n}"
  | .raise e => "raise " ++ showExc e
  | .untracked => "untracked"

def wholeAst? (toks : List String) : Option Ast :=
  match ast? (toks.length + 1) toks with
  | some (e, []) => some e
  | _ => none

def pd? : List String → Option (PreDispatch × List String)
  | "T" :: s :: r => (text? s).map (fun t => (.str t, r))
  | "I" :: n :: r => (n.toInt?).map (fun n => (.int n, r))
  | "F" :: r => (flt? r).map (fun (x, r) => (.flt x, r))
  | "B" :: "0" :: r => some (.bool false, r)
  | "B" :: "1" :: r => some (.bool true, r)
  | "Y" :: r => some (.bytes, r)
  | "O" :: r => some (.other, r)
  | _ => none

def handle (line : String) : String :=
  match tokens line with
  | "evalexpr" :: r =>
    match wholeAst? r with
    | some e => showRes (evalExpr e)
    | none => "bad-op"
  | "amount" :: r =>
    match wholeAst? r with
    | some e => showResolved (resolveAst e)
    | none => "bad-op"
  | ["parse", s] =>
    match text? s with
    | some t =>
      match parse t with
      | .ok e => "ok " ++ showAst e
      | .syntaxError => "syntax-error"
      | .abstain => "abstain"
    | none => "bad-op"
  | ["subst", s, n] =>
    match text? s, n.toInt? with
    | some t, some n => showText (substitute t n)
    | _, _ => "bad-op"
  | "predispatch" :: r =>
    match pd? r with
    | some (pd, [n]) =>
      match n.toInt? with
      | some n => showResolved (resolvePreDispatch pd n)
      | none => "bad-op"
    | _ => "bad-op"
  | _ => JoblibModel.ParallelDriver.handle line

end Driver.C09

def main : IO Unit := JoblibModel.IOUtil.lineLoop Driver.C09.handle
