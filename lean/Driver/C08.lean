import JoblibModel.HashStream
import JoblibModel.HashMemo
import JoblibModel.IOUtil
/-! Driver for C08.

Request: `enc <old|fixed> <n> <stream-hex> <digest> … <value>` where the `n` pairs are the table
of the digest function `H` (hex of the bytes fed to md5 ↦ the 32 hex digits `joblib.hash`
returned), computed by the harness from the real implementation, and `<value>` is in prefix
notation: `N` | `T` | `F` | `I<decimal>` | `D<16 hex digits>` (binary64 pattern) | `S<hex of utf-8>` |
`Y<hex>` | `L<n> v…` list | `U<n> v…` tuple | `E<n> v…` set | `Z<n> v…` frozenset | `M<n> k v …` dict
(children in iteration order).
`encod <pinned|regressed|repaired> <n> <table…> M<n> k v …` is the same for a top-level `collections.OrderedDict` with the
given items (`encodeOD`, the three versions of `Hasher._batch_setitems` on a one-shot iterator).
`memo <obj> …` (decimal object numbers, pairwise different, in the order of the `memoize` calls of one dump): reply
`ok <idx> …`, the index `HashMemo.run` gives each of them (`HashMemo.lookup`).
Reply: `ok <hex of encodeV H ver value>`, `missing-digest` when the model asked `H` for a stream
that is not in the table (its stream for a key differs from the implementation's), or `bad-op`. -/
open JoblibModel JoblibModel.HashStream JoblibModel.IOUtil

def hexVal (c : Char) : Option Nat :=
  if '0' ≤ c ∧ c ≤ '9' then some (c.toNat - '0'.toNat)
  else if 'a' ≤ c ∧ c ≤ 'f' then some (c.toNat - 'a'.toNat + 10)
  else none

def unhex : List Char → Option (List Nat)
  | [] => some []
  | a :: b :: r => do
    let x ← hexVal a
    let y ← hexVal b
    let rest ← unhex r
    pure ((16 * x + y) :: rest)
  | _ => none

def hexDigit (n : Nat) : Char := Char.ofNat (if n < 10 then 48 + n else 87 + n)

def hexOf (bs : List Nat) : String :=
  String.ofList (bs.foldr (fun b acc => hexDigit (b / 16) :: hexDigit (b % 16) :: acc) [])

def parseCount (s : List Char) : Option Nat := (String.ofList s).toNat?

mutual
def parseVal : Nat → List String → Option (PyVal × List String)
  | 0, _ => none
  | _, [] => none
  | fuel + 1, t :: r =>
    match t.toList with
    | ['N'] => some (.none, r)
    | ['T'] => some (.bool true, r)
    | ['F'] => some (.bool false, r)
    | 'I' :: d => (String.ofList d).toInt?.map fun i => (.int i, r)
    | 'D' :: d => if d.length = 16 then (unhex d).map fun bs => (.float (bs.foldl (fun a b => a * 256 + b) 0), r) else none
    | 'S' :: d => (unhex d).map fun bs => (.str bs, r)
    | 'Y' :: d => (unhex d).map fun bs => (.bytes bs, r)
    | 'L' :: d => do let n ← parseCount d; let (l, r') ← parseMany fuel n r; pure (.list l, r')
    | 'U' :: d => do let n ← parseCount d; let (l, r') ← parseMany fuel n r; pure (.tuple l, r')
    | 'E' :: d => do let n ← parseCount d; let (l, r') ← parseMany fuel n r; pure (.set l, r')
    | 'Z' :: d => do let n ← parseCount d; let (l, r') ← parseMany fuel n r; pure (.frozenset l, r')
    | 'M' :: d => do let n ← parseCount d; let (l, r') ← parseItems fuel n r; pure (.dict l, r')
    | _ => none
def parseMany : Nat → Nat → List String → Option (List PyVal × List String)
  | 0, _, _ => none
  | _, 0, r => some ([], r)
  | fuel + 1, n + 1, r => do
    let (v, r1) ← parseVal fuel r
    let (vs, r2) ← parseMany fuel n r1
    pure (v :: vs, r2)
def parseItems : Nat → Nat → List String → Option (List (PyVal × PyVal) × List String)
  | 0, _, _ => none
  | _, 0, r => some ([], r)
  | fuel + 1, n + 1, r => do
    let (k, r1) ← parseVal fuel r
    let (v, r2) ← parseVal fuel r1
    let (vs, r3) ← parseItems fuel n r2
    pure ((k, v) :: vs, r3)
end

def parseTable : Nat → List String → Option (List (List Nat × List Nat) × List String)
  | 0, r => some ([], r)
  | n + 1, s :: d :: r => do
    let k ← unhex s.toList
    if d.length ≠ 32 then none
    let (t, r') ← parseTable n r
    pure ((k, d.toList.map Char.toNat) :: t, r')
  | _, _ => none

/-- A value that is not a byte: marks a digest the table does not have. -/
def MISSING : Nat := 999

def lookupH (t : List (List Nat × List Nat)) (s : List Nat) : List Nat :=
  match t.find? (fun p => p.1 == s) with
  | some p => p.2
  | none => [MISSING]

def handleMemo (r : List String) : String :=
  match r.mapM String.toNat? with
  | some objs =>
    if objs.eraseDups.length ≠ objs.length then "bad-op"
    else
      let m := HashMemo.run objs
      match objs.mapM (HashMemo.lookup m) with
      | some idxs => "ok" ++ String.join (idxs.map fun i => " " ++ toString i)
      | none => "bad-op"
  | none => "bad-op"

def handle (line : String) : String :=
  match tokens line with
  | "memo" :: r => handleMemo r
  | "enc" :: ver :: n :: r =>
    match (if ver = "old" then some Version.old else if ver = "fixed" then some Version.fixed else none),
          n.toNat? with
    | some ver, some n =>
      match parseTable n r with
      | some (tab, r') =>
        match parseVal (2 * r'.length + 2) r' with
        | some (v, []) =>
          let out := encodeV (lookupH tab) ver v
          if out.any (· ≥ 256) then "missing-digest" else "ok " ++ hexOf out
        | _ => "bad-op"
      | none => "bad-op"
    | _, _ => "bad-op"
  | "encod" :: ver :: n :: r =>
    match (if ver = "pinned" then some ItemsVer.pinned else if ver = "regressed" then some ItemsVer.regressed
           else if ver = "repaired" then some ItemsVer.repaired else none), n.toNat? with
    | some iv, some n =>
      match parseTable n r with
      | some (tab, r') =>
        match parseVal (2 * r'.length + 2) r' with
        | some (.dict items, []) =>
          let out := encodeOD (lookupH tab) iv items
          if out.any (· ≥ 256) then "missing-digest" else "ok " ++ hexOf out
        | _ => "bad-op"
      | none => "bad-op"
    | _, _ => "bad-op"
  | _ => "bad-op"

def main : IO Unit := lineLoop handle
