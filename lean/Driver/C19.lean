import JoblibModel.ArrayFormat
import JoblibModel.IOUtil
/-! Driver for C19 (model `JoblibModel.ArrayFormat`). One request per line; `<align>` is a number or `-`
(`None`), lists are comma-separated (`-` = empty), `<hex>` is lower-case hex (`-` = empty).

* `layout <align> <pos> <itemsize> <count>` → `ok pad=<p|-> start=<data start> end=<end>` | `err <Class>`
      (`writeArray` on an empty payload: pad byte, pad run, data start; end = start + count*itemsize)
* `write <align> <pos> <itemsize> <hex data>` → `ok <hex of the bytes appended>` | `err <Class>`
* `read <align> <pos> <count> <itemsize> <hex file bytes from pos>` → `ok <hex data> pos=<p> left=<n>` | `err <Class>`
* `mmap <align> <pos> <count> <itemsize> <hex file bytes from pos>` → `offset=<o> warns=<0|1> pos=<p>`
* `chunks <itemsize> <count>` → `ok m=<max_read_count> n=<reads> sum=<items> first=<c> last=<c> maxbytes=<b>` | `err <Class>`
* `count <shape>` → `<count>`
* `order <c_contiguous 0|1> <f_contiguous 0|1>` → `C` | `F`
* `index <C|F> <shape> <idx>` → `w=<writeIndex> r=<readIndex>`
* `reduce <a.ptr> <a.shape> <a.strides> <a.itemsize> <m.ptr> <m.shape> <m.strides> <m.itemsize> <m.offset> <a_c> <a_f>`
      → `offset=<o> order=<C|F> strides=<list|None> tbl=<n|None> maps=<bytes of the byte buffer|->`
* `elem <…same 11 fields…> <idx>` → `rebuilt=<file offset> original=<file offset>`
* `forward <type is ndarray/memmap 0|1> <backed 0|1> <hasobject 0|1> <max_nbytes|-> <nbytes> <none|mode>` → `reuse-backing` | `dump-and-memmap` | `plain-pickle`
  (`none`: `mmap_mode is None`)
* `history <ctx>:<obj>:<vals>,…` (dispatches of dumped-and-memmapped arguments, in order) → `<seen>,…`
* `tables` → the generated constants
Anything else → `bad-op`. -/
open JoblibModel JoblibModel.ArrayFormat JoblibModel.Generated JoblibModel.IOUtil

def optNat? (s : String) : Option (Option Nat) :=
  if s = "-" then some none else s.toNat?.map some

def natList? (s : String) : Option (List Nat) :=
  if s = "-" then some [] else (s.splitOn ",").mapM (·.toNat?)

def intList? (s : String) : Option (List Int) :=
  if s = "-" then some [] else (s.splitOn ",").mapM (·.toInt?)

def bool? (s : String) : Option Bool :=
  if s = "1" then some true else if s = "0" then some false else none

def modeNone? (s : String) : Option Bool :=
  if s = "none" then some true else if s = "mode" then some false else none

def dispatch? (s : String) : Option Dispatch :=
  match s.splitOn ":" with
  | [c, o, v] => do
    let c ← c.toNat?
    let o ← o.toNat?
    let v ← v.toNat?
    pure ⟨c, o, v⟩
  | _ => none

def hexVal (c : Char) : Option Nat :=
  if '0' ≤ c ∧ c ≤ '9' then some (c.toNat - '0'.toNat)
  else if 'a' ≤ c ∧ c ≤ 'f' then some (c.toNat - 'a'.toNat + 10)
  else none

def parseHexAux : List Char → List Nat → Option Bytes
  | [], acc => some acc.reverse
  | a :: b :: r, acc => do
    let x ← hexVal a
    let y ← hexVal b
    parseHexAux r ((16 * x + y) :: acc)
  | _, _ => none

def parseHex (t : String) : Option Bytes :=
  if t = "-" then some [] else parseHexAux t.toList []

def hex2 (n : Nat) : String :=
  let d := fun (k : Nat) => "0123456789abcdef".toList.getD k '?'
  String.ofList [d (n / 16 % 16), d (n % 16)]

def showHex (b : Bytes) : String := if b.isEmpty then "-" else String.join (b.map hex2)

def showInts (l : List Int) : String := if l.isEmpty then "-" else ",".intercalate (l.map toString)

def showOrder : Order → String
  | .C => "C"
  | .F => "F"

def parseArrs (t : List String) : Option (Arr × Arr × Nat × Bool × Bool) :=
  match t with
  | [ap, ash, ast, ais, mp, msh, mst, mis, mo, ac, af] => do
    let ap ← ap.toInt?
    let ash ← natList? ash
    let ast ← intList? ast
    let ais ← ais.toNat?
    let mp ← mp.toInt?
    let msh ← natList? msh
    let mst ← intList? mst
    let mis ← mis.toNat?
    let mo ← mo.toNat?
    let ac ← bool? ac
    let af ← bool? af
    if ash.length ≠ ast.length ∨ msh.length ≠ mst.length then none
    else pure (⟨ap, ash, ast, ais⟩, ⟨mp, msh, mst, mis⟩, mo, ac, af)
  | _ => none

def handle (line : String) : String :=
  match tokens line with
  | ["layout", al, pos, isz, cnt] =>
    match optNat? al, pos.toNat?, isz.toNat?, cnt.toNat? with
    | some al, some pos, some isz, some cnt =>
      match writeArray al pos isz [] with
      | .error e => "err " ++ e.name
      | .ok w =>
        let start := pos + w.length
        "ok pad=" ++ (match al with | none => "-" | some _ => toString (w.headD 0))
          ++ " start=" ++ toString start ++ " end=" ++ toString (start + cnt * isz)
    | _, _, _, _ => "bad-op"
  | ["write", al, pos, isz, d] =>
    match optNat? al, pos.toNat?, isz.toNat?, parseHex d with
    | some al, some pos, some isz, some d =>
      match writeArray al pos isz d with
      | .error e => "err " ++ e.name
      | .ok w => "ok " ++ showHex w
    | _, _, _, _ => "bad-op"
  | ["read", al, pos, cnt, isz, f] =>
    match optNat? al, pos.toNat?, cnt.toNat?, isz.toNat?, parseHex f with
    | some al, some pos, some cnt, some isz, some f =>
      match readArray al ⟨f, pos⟩ cnt isz with
      | .error e => "err " ++ e.name
      | .ok (d, h) => "ok " ++ showHex d ++ " pos=" ++ toString h.pos ++ " left=" ++ toString h.rest.length
    | _, _, _, _, _ => "bad-op"
  | ["mmap", al, pos, cnt, isz, f] =>
    match optNat? al, pos.toNat?, cnt.toNat?, isz.toNat?, parseHex f with
    | some al, some pos, some cnt, some isz, some f =>
      let r := readMmap al ⟨f, pos⟩ cnt isz
      "offset=" ++ toString r.offset ++ " warns=" ++ (if r.warns then "1" else "0")
        ++ " pos=" ++ toString r.after.pos
    | _, _, _, _, _ => "bad-op"
  | ["chunks", isz, cnt] =>
    match isz.toNat?, cnt.toNat? with
    | some isz, some cnt =>
      match maxReadCount isz with
      | .error e => "err " ++ e.name
      | .ok m =>
        let l := chunks m cnt 0
        let sizes := l.map (·.2)
        "ok m=" ++ toString m ++ " n=" ++ toString l.length ++ " sum=" ++ toString sizes.sum
          ++ " first=" ++ toString (sizes.headD 0) ++ " last=" ++ toString (sizes.getLastD 0)
          ++ " maxbytes=" ++ toString ((sizes.foldl max 0) * isz)
    | _, _ => "bad-op"
  | ["count", sh] =>
    match natList? sh with
    | some sh => toString (count sh)
    | none => "bad-op"
  | ["order", c, f] =>
    match bool? c, bool? f with
    | some c, some f => showOrder (orderOf c f)
    | _, _ => "bad-op"
  | ["index", o, sh, idx] =>
    match (if o = "C" then some Order.C else if o = "F" then some Order.F else none), natList? sh, natList? idx with
    | some o, some sh, some idx =>
      if sh.length ≠ idx.length then "bad-op"
      else "w=" ++ toString (writeIndex o sh idx) ++ " r=" ++ toString (readIndex o sh idx)
    | _, _, _ => "bad-op"
  | "reduce" :: rest =>
    match parseArrs rest with
    | some (a, m, mo, ac, af) =>
      let r := reduceMemmapBacked a m mo ac af
      "offset=" ++ toString r.offset ++ " order=" ++ showOrder r.order
        ++ " strides=" ++ (match r.strides with | none => "None" | some s => showInts s)
        ++ " tbl=" ++ (match r.total_buffer_len with | none => "None" | some n => toString n)
        ++ " maps=" ++ (match r.strides with | none => "-" | some st => toString (mappedBytes r.shape st a.itemsize))
    | none => "bad-op"
  | "elem" :: rest =>
    match rest.getLast?, parseArrs rest.dropLast with
    | some idx, some (a, m, mo, ac, af) =>
      match natList? idx with
      | some idx =>
        if idx.length ≠ a.shape.length then "bad-op"
        else
          let r := reduceMemmapBacked a m mo ac af
          "rebuilt=" ++ toString (rebuiltElemOffset r a.itemsize idx)
            ++ " original=" ++ toString (originalElemOffset a m mo idx)
      | none => "bad-op"
    | _, _ => "bad-op"
  | ["forward", rt, bk, ho, mx, nb, md] =>
    match bool? rt, bool? bk, bool? ho, optNat? mx, nb.toNat?, modeNone? md with
    | some rt, some bk, some ho, some mx, some nb, some md =>
      (match forwardReduce rt bk ho mx nb md with
       | .reuseBacking => "reuse-backing"
       | .dumpAndMemmap => "dump-and-memmap"
       | .plainPickle => "plain-pickle")
    | _, _, _, _, _, _ => "bad-op"
  | ["history", ds] =>
    match (ds.splitOn ",").mapM dispatch? with
    | some h => ",".intercalate ((runHistory [] h).map toString)
    | none => "bad-op"
  | ["tables"] =>
    "tables align=" ++ toString numpyArrayAlignmentBytes ++ " buffer=" ++ toString bufferSize
      ++ " pad=" ++ toString padValue
  | _ => "bad-op"

def main : IO Unit := lineLoop handle
