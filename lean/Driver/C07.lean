import JoblibModel.FilterArgs
import JoblibModel.IOUtil
/-! Driver for C07 (`filter_args`).

Request (space-separated tokens, counts first so nothing is defaulted):

  `OPS  np (name kind dflt){np}  SELF  na v{na}  nk (k v){nk}  ni key{ni}`

* `OPS`  : non-empty string over `N` (repaired `filterArgs`), `O` (`filterArgsOld`, the pinned
           tree), `B` (`rename (bind …)`, Python's binding) — one result per letter, joined by ` | `
* `kind` : `po pk vp ko vk`; `dflt` : `-` or a value id
* `SELF` : `F` (plain function) or `M name kind value` (bound method: first parameter of
           `__func__` and the id of `__self__`)
* `key`  : a name id, `*` or `**`

Reply per op: `ok k=v …` (entries sorted by key: names ascending, then `*`, then `**`; `v` is a
value id, `[v,…]` or `{k:v,…}` sorted by key) or `err <site>`; `bad-op` for anything malformed,
for a signature that is not well-formed and for duplicate keyword names. -/
open JoblibModel JoblibModel.FilterArgs JoblibModel.IOUtil

def parseKind : String → Option Kind
  | "po" => some .posOnly | "pk" => some .posKw | "vp" => some .varPos
  | "ko" => some .kwOnly | "vk" => some .varKw | _ => none

def optNat? (s : String) : Option (Option Nat) :=
  if s = "-" then some none else (s.toNat?).map some

/-- `n` groups parsed by `f`, which returns the item and the rest. -/
def parseN {α : Type} (f : List String → Option (α × List String)) :
    Nat → List String → Option (List α × List String)
  | 0, ts => some ([], ts)
  | n + 1, ts => do
    let (a, ts) ← f ts
    let (as, ts) ← parseN f n ts
    pure (a :: as, ts)

def parseCounted {α : Type} (f : List String → Option (α × List String)) :
    List String → Option (List α × List String)
  | [] => none
  | c :: ts => do
    let n ← c.toNat?
    parseN f n ts

def pParam : List String → Option (Param × List String)
  | a :: b :: c :: ts => do
    let n ← a.toNat?
    let k ← parseKind b
    let d ← optNat? c
    pure (⟨n, k, d⟩, ts)
  | _ => none

def pNat : List String → Option (Nat × List String)
  | a :: ts => do pure (← a.toNat?, ts)
  | _ => none

def pPair : List String → Option ((Nat × Nat) × List String)
  | a :: b :: ts => do pure ((← a.toNat?, ← b.toNat?), ts)
  | _ => none

def pKey : List String → Option (Key × List String)
  | "*" :: ts => some (.star, ts)
  | "**" :: ts => some (.dstar, ts)
  | a :: ts => do pure (.name (← a.toNat?), ts)
  | _ => none

def pSelf : List String → Option (Option (Param × Nat) × List String)
  | "F" :: ts => some (none, ts)
  | "M" :: a :: b :: c :: ts => do
    let n ← a.toNat?
    let k ← parseKind b
    let v ← c.toNat?
    pure (some (⟨n, k, none⟩, v), ts)
  | _ => none

/-! Canonical rendering (not part of the model): sort by key. -/
def keyOrd : Key → Nat
  | .name n => n + 2
  | .star => 0
  | .dstar => 1

def keyLt (a b : Key) : Bool :=
  match a, b with
  | .name x, .name y => x < y
  | .name _, _ => true
  | .star, .dstar => true
  | _, _ => false

def insertBy {α : Type} (lt : α → α → Bool) (x : α) : List α → List α
  | [] => [x]
  | y :: r => if lt y x then y :: insertBy lt x r else x :: y :: r

def sortBy {α : Type} (lt : α → α → Bool) : List α → List α
  | [] => []
  | x :: r => insertBy lt x (sortBy lt r)

def showKey : Key → String
  | .name n => toString n
  | .star => "*"
  | .dstar => "**"

def showVal : Val → String
  | .one v => toString v
  | .seq vs => "[" ++ ",".intercalate (vs.map toString) ++ "]"
  | .map kv => "{" ++ ",".intercalate ((sortBy (fun a b => a.1 < b.1) kv).map
      (fun e => toString e.1 ++ ":" ++ toString e.2)) ++ "}"

def showDict (d : Dict) : String :=
  joinSp ("ok" :: (sortBy (fun a b => keyLt a.1 b.1) d).map (fun e => showKey e.1 ++ "=" ++ showVal e.2))

def showErr : Err → String
  | .kwOnlyAsPositional => "err kwOnlyAsPositional"
  | .wrongNumber => "err wrongNumber"
  | .unexpectedKeyword => "err unexpectedKeyword"
  | .ignoreUndefined => "err ignoreUndefined"

def showBindErr : BindErr → String
  | .tooManyPositional => "err tooManyPositional"
  | .multipleValues => "err multipleValues"
  | .missing => "err missing"
  | .unexpectedKeyword => "err unexpectedKeyword"

def showRes : Except Err Dict → String
  | .ok d => showDict d
  | .error e => showErr e

def runOp (s : Sig) (self : Option (Param × Nat)) (c : Call) (ig : List Key) : Char → Option String
  | 'N' => some <| showRes <| match self with
    | none => filterArgs s ig c
    | some (p, v) => filterArgsMethod p v s ig c
  | 'O' => some <| showRes <| match self with
    | none => filterArgsOld s ig c
    | some (p, v) => filterArgsMethodOld p v s ig c
  | 'B' => some <| match self with
    | none => match bind s c with
      | .ok b => showDict (rename s b)
      | .error e => showBindErr e
    | some (p, v) => match bindMethod p v s c with
      | .ok b => showDict (rename (p :: s) b)
      | .error e => showBindErr e
  | _ => none

def handle (line : String) : String :=
  match tokens line with
  | ops :: ts =>
    let r : Option String := do
      let (s, ts) ← parseCounted pParam ts
      let (self, ts) ← pSelf ts
      let (args, ts) ← parseCounted pNat ts
      let (kw, ts) ← parseCounted pPair ts
      let (ig, ts) ← parseCounted pKey ts
      if ts ≠ [] ∨ ops.isEmpty then none
      let full : Sig := match self with
        | none => s
        | some (p, _) => p :: s
      if ¬ decide (WF full) then none
      if ¬ decide (CallWF ⟨args, kw⟩) then none
      let outs ← ops.toList.mapM (runOp s self ⟨args, kw⟩ ig)
      pure (" | ".intercalate outs)
    r.getD "bad-op"
  | _ => "bad-op"

def main : IO Unit := lineLoop handle
