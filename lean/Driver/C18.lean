import JoblibModel.Lru
import JoblibModel.IOUtil
/-! Driver for C18. Request: `B I D id size access id size access …` (`-` = None).
Reply: `del <ids in eviction order>` or `bad-op`. -/
open JoblibModel JoblibModel.Lru JoblibModel.IOUtil

def parseItems : List String → Option (List Item)
  | [] => some []
  | a :: b :: c :: r => do
    let id ← a.toNat?
    let sz ← b.toNat?
    let ac ← c.toInt?
    let rest ← parseItems r
    pure (⟨id, sz, ac⟩ :: rest)
  | _ => none

def handle (line : String) : String :=
  match tokens line with
  | b :: i :: d :: r =>
    match optInt? b, optInt? i, optInt? d, parseItems r with
    | some b, some i, some d, some items =>
      "del " ++ joinSp ((itemsToDelete items ⟨b, i, d⟩).map (fun it => toString it.id))
    | _, _, _, _ => "bad-op"
  | _ => "bad-op"

def main : IO Unit := lineLoop handle
