import JoblibModel.Lru
import JoblibModel.StoreLimits
import JoblibModel.StoreLimitsOps
import JoblibModel.IOUtil
/-! Driver for C18. One request per line (`-` = None, `!` = "the stat call raises OSError"):

* `sel B I D id size access id size access …`                → `del <ids in eviction order>`
* `items <tree>`                                              → `items <n> {path size access}*n`
* `memstr <code point>*`                                      → `ok <bytes>` | `ValueError` | `IndexError` | `outside`
* `reduce <0|1 has backend> <B> <I> <D> <k> {path}*k <tree>`  → `returned calls <k> {path}*k dirs <m> {path}*m items <n>
                                                                 {path size access}*n` | `raised <exception>`
  with `B` = `-` | `i:<int>` | `s:<code points joined by ','>`; the `k` paths are the fault pattern (those for which
  `clear_location` raises).
* `reducei <0|1> <B> <I> <D> <stop|-> <k> {path}*k <tree>`     → as `reduce` (`reduceSizeInt`), or, when `clear_location`
  call number `stop` (0-based) raises something that is no `OSError`: `interrupted calls … dirs … items …` (the calls
  started, the interrupted one last; the store left behind)

`<tree>` = `D <name> <atime|!> <nfiles> {<name> <size|!> <atime|!>}*nfiles <nsubs> {<tree>}*nsubs` (names without blanks);
a path is its components joined by `/`, `.` for the store location itself. Anything else: `bad-op`. -/
open JoblibModel JoblibModel.Lru JoblibModel.StoreLimits JoblibModel.IOUtil

def parseItems : List String → Option (List (Item Nat))
  | [] => some []
  | a :: b :: c :: r => do
    let id ← a.toNat?
    let sz ← b.toNat?
    let ac ← c.toInt?
    let rest ← parseItems r
    pure (⟨id, sz, ac⟩ :: rest)
  | _ => none

def statNat? (s : String) : Option (Option Nat) :=
  if s = "!" then some none else (s.toNat?).map some

def statInt? (s : String) : Option (Option Int) :=
  if s = "!" then some none else (s.toInt?).map some

def parseFiles : Nat → List String → Option (List File × List String)
  | 0, ts => some ([], ts)
  | n + 1, nm :: sz :: atm :: ts => do
    let sz ← statNat? sz
    let atm ← statInt? atm
    let (fs, ts) ← parseFiles n ts
    pure (⟨nm, sz, atm⟩ :: fs, ts)
  | _, _ => none

mutual
def parseDir : Nat → List String → Option (Dir × List String)
  | 0, _ => none
  | fuel + 1, "D" :: name :: atm :: nf :: ts => do
    let atm ← statInt? atm
    let nf ← nf.toNat?
    let (files, ts) ← parseFiles nf ts
    match ts with
    | ns :: ts =>
      let ns ← ns.toNat?
      let (subs, ts) ← parseDirs fuel ns ts
      pure (.mk name atm files subs, ts)
    | [] => none
  | _, _ => none
def parseDirs : Nat → Nat → List String → Option (List Dir × List String)
  | _, 0, ts => some ([], ts)
  | 0, _, _ => none
  | fuel + 1, n + 1, ts => do
    let (d, ts) ← parseDir fuel ts
    let (ds, ts) ← parseDirs fuel n ts
    pure (d :: ds, ts)
end

/-- A whole token list that is exactly one tree. -/
def parseTree (ts : List String) : Option Dir :=
  match parseDir (ts.length + 1) ts with
  | some (d, []) => some d
  | _ => none

def parsePath (s : String) : Path :=
  if s = "." then [] else s.splitOn "/"

def showPath (p : Path) : String :=
  if p.isEmpty then "." else "/".intercalate p

def showItems (l : List (Item Path)) : String :=
  joinSp (toString l.length :: l.flatMap (fun it => [showPath it.id, toString it.size, toString it.access]))

def parseCodePoints : List String → Option (List Char)
  | [] => some []
  | t :: r => do
    let n ← t.toNat?
    if n.isValidChar then
      let rest ← parseCodePoints r
      pure (Char.ofNat n :: rest)
    else none

def parseBytesArg (s : String) : Option (Option BytesArg) :=
  if s = "-" then some none
  else if s.startsWith "i:" then ((s.drop 2).toString.toInt?).map (fun b => some (.int b))
  else if s.startsWith "s:" then
    let body := (s.drop 2).toString
    let toks := if body.isEmpty then [] else body.splitOn ","
    (parseCodePoints toks).map (fun cs => some (.str (String.ofList cs)))
  else none

def showMem : MemResult → String
  | .ok b => "ok " ++ toString b
  | .valueError => "ValueError"
  | .indexError => "IndexError"
  | .outside => "outside"

def showAfter (tag : String) (t' : Dir) (calls : List Path) : String :=
  let dirs := (osWalk t').map (fun e => showPath e.path)
  joinSp ([tag, "calls", toString calls.length] ++ calls.map showPath ++
    ["dirs", toString dirs.length] ++ dirs ++ ["items", showItems (getItems t')])

/-- `withStop = false`: the `reduce` request (`reduceSize`); `true`: `reducei` (`reduceSizeInt`, one more token). -/
def handleReduce (withStop : Bool) : List String → String
  | hb :: b :: i :: d :: r0 =>
    let stopTok : Option (Option Nat) × List String :=
      if withStop then
        match r0 with
        | s :: r => ((if s = "-" then some none else (s.toNat?).map some), r)
        | [] => (none, [])
      else (some none, r0)
    match stopTok with
    | (some stop, k :: r) =>
      match (if hb = "1" then some true else if hb = "0" then some false else none),
          parseBytesArg b, optInt? i, optInt? d, k.toNat? with
      | some hb, some b, some i, some d, some k =>
        if k ≤ r.length then
          let faults := (r.take k).map parsePath
          match parseTree (r.drop k) with
          | some t =>
            if withStop then
              match reduceSizeInt hb b i d (fun p => faults.contains p) stop t with
              | .returned t' calls => showAfter "returned" t' calls
              | .interrupted t' calls => showAfter "interrupted" t' calls
              | .raised e => "raised " ++ e
            else
              match reduceSize hb b i d (fun p => faults.contains p) t with
              | .returned t' calls => showAfter "returned" t' calls
              | .raised e => "raised " ++ e
          | none => "bad-op"
        else "bad-op"
      | _, _, _, _, _ => "bad-op"
    | _ => "bad-op"
  | _ => "bad-op"

def handle (line : String) : String :=
  match tokens line with
  | "sel" :: b :: i :: d :: r =>
    match optInt? b, optInt? i, optInt? d, parseItems r with
    | some b, some i, some d, some items =>
      "del " ++ joinSp ((itemsToDelete items ⟨b, i, d⟩).map (fun it => toString it.id))
    | _, _, _, _ => "bad-op"
  | "items" :: r =>
    match parseTree r with
    | some t => "items " ++ showItems (getItems t)
    | none => "bad-op"
  | "memstr" :: r =>
    match parseCodePoints r with
    | some cs => showMem (memstrChars cs)
    | none => "bad-op"
  | "reduce" :: r => handleReduce false r
  | "reducei" :: r => handleReduce true r
  | _ => "bad-op"

def main : IO Unit := lineLoop handle
