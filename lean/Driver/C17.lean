import JoblibModel.Config
import JoblibModel.IOUtil
/-! Driver for C17 (stateful: one `Global` of per-thread states per case).

Tokens.  Val: `N` (None) | `i<int>` | `s<text>` (no blanks; `s` alone = "") | `b<C><L>` with
C ∈ S T M L (backend class) and L = `N` or a natural number (nesting_level).  Slot: `_` (not given) | Val.
A configuration / argument list is 8 slots in the order
backend n_jobs verbose temp_folder max_nbytes mmap_mode prefer require.

Requests → replies
  reset <C> <8 Val>            new case: DEFAULT_BACKEND class, the 8 default values  → ok
  <t> enter <8 slots>          thread t: `with parallel_config(...)` reached           → ok | raises <E>
  <t> enterb <Val> <slot>      thread t: `with parallel_backend(backend[, n_jobs])`    → ok | raises <E>
  <t> exit                     thread t leaves its innermost block                     → ok | bad-op
  <t> create <8 slots>         thread t: `cm_k = parallel_config(...)`, no `with`      → ok | raises <E>
  <t> createb <Val> <slot>     thread t: `cm_k = parallel_backend(backend[, n_jobs])`  → ok | raises <E>
  <t> unreg <k>                thread t: `cm_k.unregister()`; k counts the objects thread t has made (by
                               enter/enterb/create/createb that did not raise), from 0 → ok | bad-op (no such object)
  <t> spawn <u> <kind>         thread t starts thread u; kind = plain | copied | to_thread;
                               u must be a thread id no request has named yet          → ok | bad-op
  <t> par <8 slots>            thread t constructs Parallel(...)                       → ok <obs> | raises <E>
  <t> gab <3 slots>            get_active_backend(prefer, require, verbose)            → ok <cls> <level> <n_jobs Val> | raises <E>
  <t> cfg                      thread t's `_backend.config`                            → cfg <8 slots>
  prog <8 slots> <program>     big-step `run` of a program tree from that configuration
                               → cfg <8 slots> <raised 0/1> <ops: E X P G letters>
     program ::= D | R | P <8 slots> program | G <3 slots> program | B <8 slots> program program | T program program
  xprog <xprogram>             big-step `xrun` of a general program by a new thread (default configuration)
                               → cfg <8 slots> <raised 0/1> <ops: E X P G C U letters>
     xprogram ::= program's forms (over xprogram) | C <8 slots> xprogram | U <k> xprogram
Anything else → bad-op. -/
open JoblibModel JoblibModel.Config JoblibModel.IOUtil

def clsOfChar : Char → Option BackendClass
  | 'S' => some .sequential | 'T' => some .threading | 'M' => some .multiprocessing | 'L' => some .loky
  | _ => none

def parseVal (tok : String) : Option Val :=
  match tok.toList with
  | ['N'] => some .none
  | 'i' :: r => (String.ofList r).toInt?.map Val.int
  | 's' :: r => some (.str (String.ofList r))
  | 'b' :: c :: r =>
    match clsOfChar c, r with
    | some cls, ['N'] => some (.backend cls none)
    | some cls, r => (String.ofList r).toNat?.map (fun l => Val.backend cls (some l))
    | none, _ => none
  | _ => none

/-- `none` = malformed; `some none` = `_`. -/
def parseSlot (tok : String) : Option Slot :=
  if tok = "_" then some none else (parseVal tok).map some

def parseConfig : List String → Option (Config × List String)
  | a :: b :: c :: d :: e :: f :: g :: h :: rest => do
    let a ← parseSlot a; let b ← parseSlot b; let c ← parseSlot c; let d ← parseSlot d
    let e ← parseSlot e; let f ← parseSlot f; let g ← parseSlot g; let h ← parseSlot h
    pure (⟨a, b, c, d, e, f, g, h⟩, rest)
  | _ => none

def parseDefaults : List String → Option Defaults
  | [a, b, c, d, e, f, g, h] => do
    let a ← parseVal a; let b ← parseVal b; let c ← parseVal c; let d ← parseVal d
    let e ← parseVal e; let f ← parseVal f; let g ← parseVal g; let h ← parseVal h
    pure ⟨a, b, c, d, e, f, g, h⟩
  | _ => none

def clsLetter : BackendClass → String
  | .sequential => "S" | .threading => "T" | .multiprocessing => "M" | .loky => "L"

def showLevel : Option Nat → String
  | none => "N" | some l => toString l

def showVal : Val → String
  | .none => "N"
  | .int i => "i" ++ toString i
  | .str s => "s" ++ s
  | .backend c l => "b" ++ clsLetter c ++ showLevel l

def showSlot : Slot → String
  | none => "_" | some v => showVal v

def showConfig (c : Config) : String :=
  joinSp [showSlot c.backend, showSlot c.n_jobs, showSlot c.verbose, showSlot c.temp_folder,
    showSlot c.max_nbytes, showSlot c.mmap_mode, showSlot c.prefer, showSlot c.require]

def showPar : Except Err ParObs → String
  | .error e => "raises " ++ e.name
  | .ok r => joinSp ["ok", r.backend.cls.name, showLevel r.backend.level, toString r.n_jobs,
      showVal r.verbose, showVal r.max_nbytes, showVal r.temp_folder, showVal r.mmap_mode,
      showVal r.prefer, showVal r.require, toString r.kw_verbose, if r.msg then "1" else "0"]

def showGab : Except Err GabObs → String
  | .error e => "raises " ++ e.name
  | .ok r => joinSp ["ok", r.backend.cls.name, showLevel r.backend.level, showVal r.n_jobs]

def showOut : Out → String
  | .entered => "ok"
  | .enterRaised e => "raises " ++ e.name
  | .exited => "ok"
  | .badExit => "bad-op"
  | .par r => showPar r
  | .gab r => showGab r
  | .spawned => "ok"

/-- Recursive-descent parser for program trees (fuel = number of tokens + 1). -/
def parseProg : Nat → List String → Option (Prog × List String)
  | 0, _ => none
  | fuel + 1, toks =>
    match toks with
    | "D" :: rest => some (.done, rest)
    | "R" :: rest => some (.raise, rest)
    | "P" :: rest => do
      let (e, rest) ← parseConfig rest
      let (k, rest) ← parseProg fuel rest
      pure (.par e k, rest)
    | "G" :: p :: r :: v :: rest => do
      let p ← parseSlot p; let r ← parseSlot r; let v ← parseSlot v
      let (k, rest) ← parseProg fuel rest
      pure (.gab p r v k, rest)
    | "B" :: rest => do
      let (a, rest) ← parseConfig rest
      let (body, rest) ← parseProg fuel rest
      let (k, rest) ← parseProg fuel rest
      pure (.block a body k, rest)
    | "T" :: rest => do
      let (body, rest) ← parseProg fuel rest
      let (k, rest) ← parseProg fuel rest
      pure (.try_ body k, rest)
    | _ => none

/-- Recursive-descent parser for general programs (fuel = number of tokens + 1). -/
def parseXProg : Nat → List String → Option (XProg × List String)
  | 0, _ => none
  | fuel + 1, toks =>
    match toks with
    | "D" :: rest => some (.done, rest)
    | "R" :: rest => some (.raise, rest)
    | "P" :: rest => do
      let (e, rest) ← parseConfig rest
      let (k, rest) ← parseXProg fuel rest
      pure (.par e k, rest)
    | "G" :: p :: r :: v :: rest => do
      let p ← parseSlot p; let r ← parseSlot r; let v ← parseSlot v
      let (k, rest) ← parseXProg fuel rest
      pure (.gab p r v k, rest)
    | "B" :: rest => do
      let (a, rest) ← parseConfig rest
      let (body, rest) ← parseXProg fuel rest
      let (k, rest) ← parseXProg fuel rest
      pure (.block a body k, rest)
    | "C" :: rest => do
      let (a, rest) ← parseConfig rest
      let (k, rest) ← parseXProg fuel rest
      pure (.create a k, rest)
    | "U" :: i :: rest => do
      let i ← i.toNat?
      let (k, rest) ← parseXProg fuel rest
      pure (.unreg i k, rest)
    | "T" :: rest => do
      let (body, rest) ← parseXProg fuel rest
      let (k, rest) ← parseXProg fuel rest
      pure (.try_ body k, rest)
    | _ => none

def opLetter : Op → String
  | .enter _ => "E" | .exit => "X" | .par _ => "P" | .gab _ _ _ => "G"
  | .create _ => "C" | .unreg _ => "U" | .spawn _ _ => "S"

def parseKind (tok : String) : Option SpawnKind :=
  if tok = "plain" then some .plain else if tok = "copied" then some .copiedContext
  else if tok = "to_thread" then some .toThread else none

structure St where
  env : Env
  g : Global
  /-- the thread ids some request has named (a spawned thread must be new) -/
  used : List Nat

def threadOp (st : St) (t : Nat) (op : Op) : St × String :=
  let (g', o) := gstep st.env st.g t op
  ({ st with g := g' }, showOut o)

def handleThread (st : St) (t : Nat) (cmd : String) (rest : List String) : St × String :=
  if cmd = "enter" then
    match parseConfig rest with
    | some (a, []) => threadOp st t (.enter a)
    | _ => (st, "bad-op")
  else if cmd = "enterb" then
    match rest with
    | [b, n] =>
      match parseVal b, parseSlot n with
      | some b, some n => threadOp st t (.enter (parallelBackendArgs b n))
      | _, _ => (st, "bad-op")
    | _ => (st, "bad-op")
  else if cmd = "exit" then
    match rest with
    | [] => threadOp st t .exit
    | _ => (st, "bad-op")
  else if cmd = "create" then
    match parseConfig rest with
    | some (a, []) => threadOp st t (.create a)
    | _ => (st, "bad-op")
  else if cmd = "createb" then
    match rest with
    | [b, n] =>
      match parseVal b, parseSlot n with
      | some b, some n => threadOp st t (.create (parallelBackendArgs b n))
      | _, _ => (st, "bad-op")
    | _ => (st, "bad-op")
  else if cmd = "unreg" then
    match rest with
    | [k] =>
      match k.toNat? with
      | some k => threadOp st t (.unreg k)
      | none => (st, "bad-op")
    | _ => (st, "bad-op")
  else if cmd = "spawn" then
    match rest with
    | [u, kind] =>
      match u.toNat?, parseKind kind with
      | some u, some kind =>
        if u = t || st.used.contains u then (st, "bad-op")
        else threadOp { st with used := u :: st.used } t (.spawn u kind)
      | _, _ => (st, "bad-op")
    | _ => (st, "bad-op")
  else if cmd = "par" then
    match parseConfig rest with
    | some (e, []) => threadOp st t (.par e)
    | _ => (st, "bad-op")
  else if cmd = "gab" then
    match rest with
    | [p, r, v] =>
      match parseSlot p, parseSlot r, parseSlot v with
      | some p, some r, some v => threadOp st t (.gab p r v)
      | _, _, _ => (st, "bad-op")
    | _ => (st, "bad-op")
  else if cmd = "cfg" then
    match rest with
    | [] => (st, "cfg " ++ showConfig (st.g t).cfg)
    | _ => (st, "bad-op")
  else (st, "bad-op")

/-- No case is open before the first `reset`: thread requests are then malformed. -/
def handle (st : Option St) (line : String) : Option St × String :=
  match tokens line with
  | "reset" :: c :: rest =>
    match c.toList, parseDefaults rest with
    | [ch], some d =>
      match clsOfChar ch with
      | some cls => (some ⟨⟨cls, d⟩, fun _ => TState.init, []⟩, "ok")
      | none => (st, "bad-op")
    | _, _ => (st, "bad-op")
  | "prog" :: rest =>
    match parseConfig rest with
    | some (c, rest) =>
      match parseProg (rest.length + 1) rest with
      | some (p, []) =>
        let r := run p c
        (st, joinSp ["cfg", showConfig r.cfg, if r.raised then "1" else "0",
          String.join (r.ops.map opLetter)])
      | _ => (st, "bad-op")
    | none => (st, "bad-op")
  | "xprog" :: rest =>
    match parseXProg (rest.length + 1) rest with
    | some (p, []) =>
      let r := xrun p TState.init
      (st, joinSp ["cfg", showConfig r.state.cfg, if r.raised then "1" else "0",
        String.join (r.ops.map opLetter)])
    | _ => (st, "bad-op")
  | t :: cmd :: rest =>
    match t.toNat?, st with
    | some t, some s =>
      let s := if s.used.contains t then s else { s with used := t :: s.used }
      let (s', out) := handleThread s t cmd rest
      (some s', out)
    | _, _ => (st, "bad-op")
  | _ => (st, "bad-op")

def main : IO Unit := stateLoop (none : Option St) handle
