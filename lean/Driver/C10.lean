import JoblibModel.LokyMgr
import JoblibModel.IOUtil
/-! Driver for C10: predicts the outcome classes of a fault schedule on the loky backend.

Request (one line, single spaces):

    scn <n_jobs> <queue_size> <managed 0|1> <ncalls>  then per call:
    c <n_tasks> <pre_k> <pre_obs 0|1> <st_at | -> <st_k> <st_obs 0|1> <nfaults> (<task> <class>)*

* `pre_k`  : that many idle workers (lowest pids of the current executor) are killed BEFORE the call;
  `pre_obs = 1`: the manager thread gets to run before the call starts (the harness sleeps),
  `0`: a race — both orders are explored.
* `st_at`  : the call's input generator kills `st_k` workers just before yielding item `st_at`
  (tasks `< st_at` are already submitted); `st_obs` as above.
* fault classes of a task (what the worker running it does):
  `nobytes`   dies holding the call item, nothing written (argument unpickling, task start, mid-task, result pickling),
  `midsend`   dies after writing the first bytes of its result message,
  `aftersend` dies after writing the complete result message,
  `unpicklefail` `call_queue.get()` raises in the worker (`sys.exit()` while unpickling): `_RemoteTraceback`, exit,
  `taskexc`   the task raises (`sys.exit()` in the task or while its result is pickled): no death at all.
Third request form (the FINE-GRAINED layer of the model: wait set, wake-up pipe, shutdown lock; `wstep`):
`fine <managerFirst 0|1> <closeUnlocked 0|1> <wakeupBeforeRespawn 0|1> <fresh|idled> <n_jobs> <queue_size> <n_tasks> <nfaults>
(<task> <class>)*` — ONE call on a FRESH executor, or (`idled`) on an executor that has served one task and whose workers
have ALL left cleanly since (idle time-out) and been reaped; the caller's `submit`s, its wait and its abort (`shutdown(kill_workers=True)` + join) run statement by
statement against the manager's statements and the workers → `fouts <w> <outcome> | <outcome> …` with outcomes `ok`,
`<ExceptionClass>`, `OSError` (raised by the abort's own wake-up write), `hang`; `<w>` = 1 iff some explored state has the
caller between the `_closed` test and the write of `wakeup()` with the pipe already closed. `0 0 0` is the code as it is (`0 0 1`: before the repair F53).
Calls of at most 4 tasks: every interleaving; larger calls: the workers move only once every task is submitted (as in `scn`).
An exhausted exploration budget shows as the extra outcome `fuel`.
Second request form: `exitname <exit code> <k> (<signal number> <name>)*` → `name <s>` | `raises ValueError`
(`_get_exitcode_name` with `signal.Signals` given as a table).

The client is joblib's: a call = (`configure` unless inside a `with` block) ; submit every task ; wait ;
on an exception `abort_everything(ensure_ready = managed)`, else `terminate()` when not managed.
Inside a call EVERY interleaving of manager iterations, worker `take`s (by the idle live worker with the
lowest pid: idle workers are interchangeable) and task completions of ANY busy worker (the task's send/kill
events) is explored, with `managerStep` and `step` — the definitions the theorems are about.

Reply: `outs <trace> | <trace> | …` — the set of possible traces, sorted; a trace has one token per call:
`ok@<executor_id>`, `<ExceptionClass>@<executor_id>` or `hang` (nothing after a hang).
Malformed request: `bad-op`. -/
open JoblibModel JoblibModel.LokyMgr JoblibModel.IOUtil

inductive FaultCls where
  | nobytes | midsend | aftersend | unpicklefail | taskexc
deriving DecidableEq, Repr

structure CallSpec where
  nTasks : Nat
  preK : Nat
  preObs : Bool
  stAt : Option Nat
  stK : Nat
  stObs : Bool
  faults : List (Nat × FaultCls)
deriving Repr

structure Scn where
  nJobs : Nat
  queueSize : Nat
  managed : Bool
  calls : List CallSpec
deriving Repr

/-! #### parsing -/

def bool? (s : String) : Option Bool :=
  if s = "0" then some false else if s = "1" then some true else none

def cls? (s : String) : Option FaultCls :=
  if s = "nobytes" then some .nobytes
  else if s = "midsend" then some .midsend
  else if s = "aftersend" then some .aftersend
  else if s = "unpicklefail" then some .unpicklefail
  else if s = "taskexc" then some .taskexc
  else none

def parseFaults : Nat → List String → Option (List (Nat × FaultCls) × List String)
  | 0, r => some ([], r)
  | n + 1, t :: c :: r => do
    let t ← t.toNat?
    let c ← cls? c
    let (fs, r') ← parseFaults n r
    pure ((t, c) :: fs, r')
  | _, _ => none

def parseCalls : Nat → List String → Option (List CallSpec)
  | 0, [] => some []
  | 0, _ => none
  | n + 1, "c" :: nt :: pk :: po :: sa :: sk :: so :: nf :: r => do
    let nt ← nt.toNat?
    let pk ← pk.toNat?
    let po ← bool? po
    let sa ← (if sa = "-" then some none else sa.toNat?.map some)
    let sk ← sk.toNat?
    let so ← bool? so
    let nf ← nf.toNat?
    let (fs, r') ← parseFaults nf r
    -- a fault must sit on an existing task, once
    if fs.any (fun f => f.1 ≥ nt) then none
    else if (fs.map (·.1)).eraseDups.length ≠ fs.length then none
    else if (match sa with | some a => decide (a ≥ nt) | none => false) then none
    else do
      let rest ← parseCalls n r'
      pure (⟨nt, pk, po, sa, sk, so, fs⟩ :: rest)
  | _, _ => none

def parseScn (line : String) : Option Scn :=
  match tokens line with
  | "scn" :: nj :: qs :: m :: nc :: r => do
    let nj ← nj.toNat?
    let qs ← qs.toNat?
    let m ← bool? m
    let nc ← nc.toNat?
    if nj < 2 || qs = 0 || nc = 0 then none
    else do
      let cs ← parseCalls nc r
      pure ⟨nj, qs, m, cs⟩
  | _ => none

/-! #### the explored system -/

def fnTask (a : Nat) : Nat := a * a + 7

def excName : Exc → String
  | .terminatedWorker => "TerminatedWorkerError"
  | .brokenPool => "BrokenProcessPool"
  | .shutdownExecutor => "ShutdownExecutorError"
  | .taskError => "TaskError"

/-- Iterate the manager alone until it stops making progress. Returns the state and why it stopped. -/
def mgrRun : Nat → State → State × StepResult
  | 0, s => (s, .progressed)
  | f + 1, s =>
    match managerStep s with
    | (s', .progressed) => mgrRun f s'
    | (s', r) => (s', r)

/-- Kill the `k` live workers with the lowest pids. -/
def killLowest (fn : Nat → Nat) (s : State) (k : Nat) : State :=
  let pids := ((s.processes.filter (·.alive)).map (·.pid)).take k
  pids.foldl (fun s p => step fn s (.kill p)) s

def lowestIdle (s : State) : Option Nat :=
  (s.processes.find? (·.idle)).map (·.pid)

/-- `call_queue.get()`: the idle live worker with the lowest pid takes the head call item (idle workers are
interchangeable). `none` when no worker can take anything. -/
def workerTake (victims : List (Nat × FaultCls)) (s : State) : Option State :=
  match lowestIdle s, s.call_queue with
  | some p, it :: _ =>
    -- `unpicklefail`: `call_queue.get()` itself raises in the worker (it puts a `_RemoteTraceback` and exits)
    if victims.lookup it.wid = some .unpicklefail then some (step fnTask s (.unpickleFail p))
    else some (step fnTask s (.take p))
  | _, _ => none

/-- The workers that hold a call item and have not begun to send. -/
def busyWorkers (s : State) : List (Nat × CallItem) :=
  s.processes.filterMap fun w =>
    match w.current with
    | some it => if w.alive && !w.sending then some (w.pid, it) else none
    | none => none

/-- Worker `p` is done with the task of call item `it`: what the task's fault class says. -/
def workerFinish (victims : List (Nat × FaultCls)) (s : State) (p : Nat) (it : CallItem) : State :=
  match victims.lookup it.wid with
  | none => step fnTask s (.sendResult p)
  | some .nobytes => step fnTask s (.kill p)
  | some .midsend => step fnTask (step fnTask s (.beginSend p)) (.kill p)
  | some .aftersend => step fnTask (step fnTask s (.sendResult p)) (.kill p)
  | some .taskexc => step fnTask s (.sendTaskExc p)      -- the task raised (`sys.exit()` included): not a death
  | some .unpicklefail => step fnTask s (.kill p)        -- not reached: such an item is never taken

inductive CallEnd where
  | ok
  | exc (e : Exc)
  | hang
deriving DecidableEq, Repr

/-- State of the call's futures `wids`: finished (first exception in submission order, or all results), or not yet. -/
def firstExc : List Fut → Option Exc
  | [] => none
  | .exception e :: _ => some e
  | _ :: r => firstExc r

def isResult : Fut → Bool
  | .result _ => true
  | _ => false

def callStatus (s : State) (wids : List Nat) : Option CallEnd :=
  let sts : List Fut := wids.map (fun w => match s.futures[w]? with | some r => r.st | none => .pending)
  match firstExc sts with
  | some e => some (.exc e)
  | none => if sts.all isResult then some .ok else none

/-! #### symmetry reduction: workers are interchangeable -/

def isPidMsg : Msg → Bool
  | .pid _ => true
  | _ => false

def workerKey (w : Worker) : Nat :=
  (if w.alive then 0 else 1000000) + (match w.current with | none => 0 | some it => (it.wid + 1) * 4) +
    (if w.sending then 2 else 0) + (if w.exiting then 1 else 0)

def insertWorker (w : Worker) : List Worker → List Worker
  | [] => [w]
  | y :: ys => if workerKey w ≤ workerKey y then w :: y :: ys else y :: insertWorker w ys

/-- Rename the pids so that the workers appear sorted by what they are doing (the pids themselves carry no
information: `step` treats all workers alike). Left alone while a message names a pid. -/
def canonState (s : State) : State :=
  if s.partialMsg.isSome || s.result_pipe.any isPidMsg then s
  else
    let pids := s.processes.map (·.pid)
    let ws := s.processes.foldr insertWorker []
    { s with processes := (pids.zip ws).map fun (p, w) => { w with pid := p } }

/-- Between two calls: an executor whose manager has returned is never used again (`get_reusable_executor`
replaces it on the strength of its flags): only the flags are kept. -/
def tombstone (s : State) : State :=
  if s.mgr == .exited then
    { State.init s.max_workers s.queue_size 0 with flags := s.flags, mgr := .exited }
  else canonState s

def canonPool (p : Pool) : Pool := { p with execs := p.execs.map tombstone }

/-- The visited set of the exploration: buckets indexed by the state's hash. -/
structure Visited where
  buckets : Array (List State)

def Visited.empty : Visited := ⟨Array.replicate 8192 []⟩

def Visited.slot (v : Visited) (s : State) : Nat := (hash s).toNat % v.buckets.size

def Visited.contains (v : Visited) (s : State) : Bool :=
  match v.buckets[v.slot s]? with
  | some l => l.contains s
  | none => false

def Visited.insert (v : Visited) (s : State) : Visited :=
  let i := v.slot s
  match v.buckets[i]? with
  | some l => ⟨v.buckets.set! i (s :: l)⟩
  | none => v

/-- Depth-first exploration of every interleaving of manager iterations, worker takes and task completions
until the call ends. Returns the set of (executor state at the end, how the call ended). -/
def exploreCall (victims : List (Nat × FaultCls)) (wids : List Nat) :
    Nat → List State → Visited → List (State × CallEnd) → List (State × CallEnd)
  | 0, _, _, acc => acc
  | _, [], _, acc => acc
  | fuel + 1, s :: stack, visited, acc =>
    if visited.contains s then exploreCall victims wids fuel stack visited acc
    else
      let visited := visited.insert s
      match callStatus s wids with
      | some e =>
        let acc := if acc.contains (s, e) then acc else (s, e) :: acc
        exploreCall victims wids fuel stack visited acc
      | none =>
        let (sm, _) := managerStep s
        let succs := (if sm == s then [] else [sm]) ++
          (match workerTake victims s with | some sw => if sw == s then [] else [sw] | none => []) ++
          ((busyWorkers s).map (fun (p, it) => workerFinish victims s p it)).filter (fun sw => sw != s)
        if succs.isEmpty then
          let acc := if acc.contains (s, .hang) then acc else (s, .hang) :: acc
          exploreCall victims wids fuel stack visited acc
        else exploreCall victims wids fuel (succs.map canonState ++ stack) visited acc

structure Sys where
  pool : Pool
  backend : Backend
  trace : List String     -- reversed
deriving DecidableEq, Repr

def setExec (p : Pool) (i : Nat) (e : State) : Pool := { p with execs := p.execs.set i e }

/-- `shutdown(wait=True)`: join the manager thread of executor `i`. `none` = the join never returns. -/
def joinMgr (p : Pool) (i : Nat) : Option Pool :=
  match p.execs[i]? with
  | none => some p
  | some e =>
    match mgrRun 1000 e with
    | (e', .exited) => some (setExec p i e')
    | (e', .notRunning) => some (setExec p i e')
    | _ => none

/-- `configure` + the join hidden in `get_reusable_executor` when the previous instance is replaced. -/
def configureJoin (p : Pool) (nJobs qs : Nat) : Option (Pool × Backend) :=
  let old := p.current
  let (p', b) := configure p nJobs qs
  match old with
  | some i => if b.workers = some i then some (p', b) else (joinMgr p' i).map (fun p'' => (p'', b))
  | none => some (p', b)

/-- Let the manager of executor `i` run (or not): the observation branches. -/
def observeBranches (p : Pool) (i : Option Nat) (forced : Bool) : List Pool :=
  match i with
  | none => [p]
  | some i =>
    match p.execs[i]? with
    | none => [p]
    | some e =>
      let ran := setExec p i (mgrRun 1000 e).1
      if forced then [ran] else if ran == p then [p] else [p, ran]

def dedup {α} [DecidableEq α] (l : List α) : List α := l.eraseDups

/-- Submit tasks `i, i+1, …` of the call; returns the branches: pool, submitted wids (reversed), or the
exception raised by `submit`. -/
def submitAll (c : CallSpec) (b : Backend) (argBase : Nat) :
    Nat → Nat → Pool → List Nat → List (Pool × List Nat × Option String)
  | 0, _, p, wids => [(p, wids, none)]
  | n + 1, i, p, wids =>
    -- the input generator's start-up kill, just before item `i`
    let pools : List Pool :=
      if c.stAt = some i then
        match b.workers with
        | some x =>
          match p.execs[x]? with
          | some e => observeBranches (setExec p x (killLowest fnTask e c.stK)) (some x) c.stObs
          | none => [p]
        | none => [p]
      else [p]
    pools.flatMap fun p =>
      match backendSubmit p b (argBase + i) with
      | none => [(p, wids, some "AttributeError")]
      | some (p', .error e) => [(p', wids, some (excName e))]
      | some (p', .ok wid) => submitAll c b argBase n (i + 1) p' (wid :: wids)

/-- After a failed call: `abort_everything(ensure_ready = managed)` with its join. `none` = never returns. -/
def abortJoin (p : Pool) (b : Backend) (nJobs qs : Nat) (managed : Bool) : Option (Pool × Backend) :=
  match b.workers with
  | none => none
  | some i =>
    match abortEverything p b nJobs qs false with
    | none => none
    | some (p1, _) =>
      match joinMgr p1 i with
      | none => none
      | some p2 => if managed then configureJoin p2 nJobs qs else some (p2, ⟨none⟩)

/-- What one call leads to: the end of the trace (a hang) or the system before the next call. -/
inductive Next where
  | stop (trace : List String)
  | cont (sys : Sys)
deriving DecidableEq

/-- One call of the scenario from `sys`: every branch (observation races, interleavings) → its `Next`. -/
def oneCall (scn : Scn) (c : CallSpec) (ci : Nat) (sys : Sys) : List Next :=
  let hang : Next := .stop ("hang" :: sys.trace).reverse
  -- idle kill before the call, on the singleton's current executor
  let p0 : Pool :=
    match sys.pool.current with
    | some x =>
      match sys.pool.execs[x]? with
      | some e => if c.preK > 0 then setExec sys.pool x (killLowest fnTask e c.preK) else sys.pool
      | none => sys.pool
    | none => sys.pool
  -- has the manager of the current executor looked since? (forced when the harness let it)
  let pools := observeBranches p0 p0.current (c.preK > 0 && c.preObs)
  pools.flatMap fun p1 =>
    -- configure unless managed
    let cfg : Option (Pool × Backend) :=
      if scn.managed then some (p1, sys.backend) else configureJoin p1 scn.nJobs scn.queueSize
    match cfg with
    | none => [hang]
    | some (p2, b) =>
      let idStr := match b.workers with | some i => toString i | none => "-"
      let failed (p : Pool) (name : String) : Next :=
        -- `Parallel` aborts (`abort_everything(ensure_ready = managed)`) and re-raises
        match abortJoin p b scn.nJobs scn.queueSize scn.managed with
        | none => hang
        | some (p', b') => .cont ⟨canonPool p', b', s!"{name}@{idStr}" :: sys.trace⟩
      (submitAll c b (1000 * ci) c.nTasks 0 p2 []).flatMap fun (p3, wids, err) =>
        match err with
        | some name => [failed p3 name]
        | none =>
          match b.workers with
          | none => [.stop ("AttributeError@-" :: sys.trace).reverse]
          | some x =>
            match p3.execs[x]? with
            | none => [.stop ("AttributeError@-" :: sys.trace).reverse]
            | some e0 =>
              let victims := c.faults.filterMap fun (t, k) =>
                -- task `t` of this call is the `t`-th submitted wid
                (wids.reverse[t]?).map (fun w => (w, k))
              let ends := exploreCall victims wids.reverse 4000000 [canonState e0] Visited.empty []
              ends.map fun (e1, ce) =>
                match ce with
                | .hang => hang
                | .ok =>
                  let b' := if scn.managed then b else backendTerminate b
                  .cont ⟨canonPool (setExec p3 x e1), b', s!"ok@{idStr}" :: sys.trace⟩
                | .exc ex => failed (setExec p3 x e1) (excName ex)

/-- The calls one after the other; identical systems reached through different schedules are merged. -/
def runCalls (scn : Scn) : Nat → List CallSpec → Nat → List Sys → List (List String)
  | 0, _, _, syss => syss.map (·.trace.reverse)
  | _, [], _, syss => syss.map (·.trace.reverse)
  | fuel + 1, c :: rest, ci, syss =>
    let nexts := dedup (syss.flatMap (oneCall scn c ci))
    let stops := nexts.filterMap fun n => match n with | .stop t => some t | .cont _ => none
    let conts := nexts.filterMap fun n => match n with | .cont s => some s | .stop _ => none
    stops ++ runCalls scn fuel rest (ci + 1) conts

def insertSorted (x : String) : List String → List String
  | [] => [x]
  | y :: ys => if x ≤ y then x :: y :: ys else y :: insertSorted x ys

def sortStrings (l : List String) : List String := l.foldr insertSorted []

/-! #### the fine-grained layer: one call on a fresh executor, statement by statement -/

inductive FPhase where
  | submitting (i : Nat)     -- the caller is dispatching; `i` tasks have been handed to `submit`
  | waiting                  -- every task submitted; the caller waits for the futures
  | aborting (e : Exc)       -- a future (or `submit`) raised `e`: `shutdown(kill_workers=True)` entered
  | joining (e : Exc)        -- … `executor_manager_thread.join()`
deriving DecidableEq, Repr, Hashable

structure FNode where
  w : WState
  ph : FPhase
deriving DecidableEq, Repr, Hashable

inductive FOut where
  | node (n : FNode)
  | final (o : String)

/-- The caller thread's next move (`none`: it is blocked). `base0` = the work id of the call's first task. -/
def callerMove (cfg : Cfg) (base0 nTasks : Nat) (n : FNode) : Option FOut :=
  let s := n.w
  let abort (e : Exc) : FOut := .node ⟨wstep cfg fnTask s (.callShutdown true), .aborting e⟩
  if s.oserror then some (.final "OSError")
  else
    match n.ph with
    | .submitting i =>
      if s.cpc ≠ .idle then some (.node ⟨wstep cfg fnTask s .caller, n.ph⟩)
      else if i < nTasks then
        match s.base.flags.broken with
        | some b => some (abort b)                                    -- `submit` raises the stored error
        | none =>
          if s.base.flags.shutdown then some (abort .shutdownExecutor)
          else some (.node ⟨wstep cfg fnTask s (.callSubmit (base0 + i)), .submitting (i + 1)⟩)
      else some (.node ⟨s, .waiting⟩)
    | .waiting =>
      match callStatus s.base (List.range' base0 nTasks) with
      | some .ok => some (.final "ok")
      | some (.exc e) => some (abort e)
      | _ => none
    | .aborting e =>
      if s.cpc = .idle then some (.node ⟨s, .joining e⟩)
      else
        let s' := wstep cfg fnTask s .caller
        if s' == s then none else some (.node ⟨s', n.ph⟩)
    | .joining e =>
      if s.base.mgr == .notStarted || s.base.mgr == .crashed || (s.base.mgr == .exited && s.mph == .done) then
        some (.final (excName e))
      else none

def iter {α} (f : α → α) : Nat → α → α
  | 0, a => a
  | k + 1, a => iter f k (f a)

/-- An executor that has served one task and whose workers have all left cleanly (idle time-out) and been reaped:
`submit`, manager, one worker runs the task, the result is delivered; every worker announces its exit, the manager
reaps it. The manager thread is alive, inside `wait`, `len(_processes) = 0 < max_workers`. -/
def idledStart (cfg : Cfg) (nj qs : Nat) : WState :=
  let ev (s : WState) (e : WEvent) := wstep cfg fnTask s e
  let s := ev (WState.init nj qs (firstPid 0)) (.callSubmit 0)
  let s := iter (fun s => ev s .caller) (nj + 8) s
  let s := iter (fun s => ev s .manager) 4 s
  let s := ev (ev s (.env (.take (firstPid 0)))) (.env (.sendResult (firstPid 0)))
  let s := iter (fun s => ev s .manager) 4 s
  (List.range nj).foldl (fun s k => iter (fun s => ev s .manager) 3 (ev s (.env (.announceExit (firstPid 0 + k))))) s

structure FVisited where
  buckets : Array (List FNode)

def FVisited.empty : FVisited := ⟨Array.replicate 8192 []⟩
def FVisited.slot (v : FVisited) (n : FNode) : Nat := (hash n).toNat % v.buckets.size
def FVisited.contains (v : FVisited) (n : FNode) : Bool :=
  match v.buckets[v.slot n]? with
  | some l => l.contains n
  | none => false
def FVisited.insert (v : FVisited) (n : FNode) : FVisited :=
  let i := v.slot n
  match v.buckets[i]? with
  | some l => ⟨v.buckets.set! i (n :: l)⟩
  | none => v

/-- Symmetry reduction as in `canonState`: renaming the pids is a symmetry of the fine layer as long as the wait set is
closed under it — it names every process, or none (or the manager is not inside `wait`). Otherwise: left alone. -/
def canonW (s : WState) : WState :=
  let ok := match s.mph with
    | .waiting ws => ws == pidsOf s.base.processes || ws.isEmpty
    | _ => true
  if ok then { s with base := canonState s.base } else s

def canonN (n : FNode) : FNode := { n with w := canonW n.w }

def betweenTestAndWriteClosed (s : WState) : Bool :=
  (s.cpc == .subWrite || s.cpc == .shutWrite) && s.closed

/-- Every interleaving of the caller's statements, the manager's statements (`wstep … .manager`), worker takes and task
completions. Returns the outcomes and whether a state "between test and write, pipe closed" was met. -/
def exploreFine (cfg : Cfg) (base0 nTasks : Nat) (victims : List (Nat × FaultCls)) :
    Nat → List FNode → FVisited → List String × Bool → List String × Bool
  | 0, _, _, acc => (if acc.1.contains "fuel" then acc.1 else "fuel" :: acc.1, acc.2)
  | _, [], _, acc => acc
  | fuel + 1, n :: stack, visited, acc =>
    if visited.contains n then exploreFine cfg base0 nTasks victims fuel stack visited acc
    else
      let visited := visited.insert n
      let acc := (acc.1, acc.2 || betweenTestAndWriteClosed n.w)
      let add (o : String) (a : List String × Bool) := (if a.1.contains o then a.1 else o :: a.1, a.2)
      let s := n.w
      let sm := wstep cfg fnTask s .manager
      -- calls of more than 4 tasks: the workers move once every task is submitted (the assumption of `exploreCall`:
      -- "submits a call's tasks up front"); smaller calls: full interleaving
      let frozen := nTasks > 4 && (match n.ph with | .submitting _ => true | _ => false)
      let envs : List WState :=
        if frozen then [] else
        (match workerTake victims s.base with | some sw => [{ s with base := sw }] | none => []) ++
        (busyWorkers s.base).map (fun (p, it) => { s with base := workerFinish victims s.base p it })
      let others : List FNode := (([sm] ++ envs).filter (fun x => x != s)).map (fun x => ⟨x, n.ph⟩)
      match callerMove cfg base0 nTasks n with
      | some (.final o) =>
        -- the call is over for the caller; nothing after it is observed
        exploreFine cfg base0 nTasks victims fuel stack visited (add o acc)
      | some (.node c) => exploreFine cfg base0 nTasks victims fuel ((c :: others).map canonN ++ stack) visited acc
      | none =>
        if others.isEmpty then exploreFine cfg base0 nTasks victims fuel stack visited (add "hang" acc)
        else exploreFine cfg base0 nTasks victims fuel (others.map canonN ++ stack) visited acc

/-- `fine <managerFirst> <closeUnlocked> <wakeupBeforeRespawn> <fresh|idled> <n_jobs> <queue_size> <n_tasks> <nfaults> (<task> <class>)*`. -/
def handleFine (toks : List String) : String :=
  match toks with
  | mf :: cu :: wb :: start :: nj :: qs :: nt :: nf :: r =>
    match bool? mf, bool? cu, bool? wb, nj.toNat?, qs.toNat?, nt.toNat?, nf.toNat? with
    | some mf, some cu, some wb, some nj, some qs, some nt, some nf =>
      match parseFaults nf r with
      | some (fs, []) =>
        if nj < 2 || qs = 0 || nt = 0 || fs.any (fun f => f.1 ≥ nt) || (fs.map (·.1)).eraseDups.length ≠ fs.length
            || (start ≠ "fresh" && start ≠ "idled") then "bad-op"
        else
          let cfg : Cfg := ⟨mf, cu, wb⟩
          let w0 : WState := if start = "fresh" then WState.init nj qs (firstPid 0) else idledStart cfg nj qs
          let base0 := w0.base.futures.length
          let victims := fs.map fun (t, k) => (base0 + t, k)
          let (outs, w) := exploreFine cfg base0 nt victims 400000 [⟨w0, .submitting 0⟩] FVisited.empty ([], false)
          "fouts " ++ (if w then "1 " else "0 ") ++ " | ".intercalate (sortStrings outs)
      | _ => "bad-op"
    | _, _, _, _, _, _, _ => "bad-op"
  | _ => "bad-op"

def parseNames : Nat → List String → Option (List (Nat × String))
  | 0, [] => some []
  | 0, _ => none
  | k + 1, n :: name :: r => do
    let n ← n.toNat?
    let rest ← parseNames k r
    pure ((n, name) :: rest)
  | _, _ => none

/-- `exitname <exit code> <k> (<signal number> <name>)*` → `name <s>` | `raises ValueError`. -/
def handleExitname (toks : List String) : String :=
  match toks with
  | code :: k :: r =>
    match code.toInt?, k.toNat? with
    | some code, some k =>
      match parseNames k r with
      | some names =>
        match getExitcodeName names code with
        | .ok s => "name " ++ s
        | .error .valueError => "raises ValueError"
      | none => "bad-op"
    | _, _ => "bad-op"
  | _ => "bad-op"

def handle (line : String) : String :=
  match tokens line with
  | "exitname" :: r => handleExitname r
  | "fine" :: r => handleFine r
  | _ =>
  match parseScn line with
  | none => "bad-op"
  | some scn =>
    let sys0 : Sys :=
      if scn.managed then
        let (p, b) := configure Pool.empty scn.nJobs scn.queueSize   -- `__enter__`
        ⟨p, b, []⟩
      else ⟨Pool.empty, ⟨none⟩, []⟩
    let traces := dedup (runCalls scn (scn.calls.length + 1) scn.calls 0 [sys0])
    "outs " ++ " | ".intercalate (sortStrings (traces.map joinSp))

def main : IO Unit := lineLoop handle
