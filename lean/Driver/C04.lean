import JoblibModel.ParallelDriver
/-! Driver for C04: scenarios of harness/ctl.py → event log of the M1 model (see JoblibModel/ParallelDriver.lean). -/
def main : IO Unit := JoblibModel.IOUtil.lineLoop JoblibModel.ParallelDriver.handle
