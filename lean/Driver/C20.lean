import JoblibModel.Tracker
import JoblibModel.IOUtil
/-! Driver for C20 (model of `resource_tracker.main`). One request per line:

* `RESET`                 → `reset`            fresh registry (`registry = {rtype: {} …}`)
* `T`                     → `rtypes folder file semlock`   (`_CLEANUP_FUNCS.keys()` as the model has it)
* `L x<hex>`              → actions of `step` on that raw line (bytes in hex, '\n' included when it was there)
* `EOF`                   → actions of `finish` on the current registry (registry kept)
* `Q <rtype> x<hexname>`  → `count <c> <a>`: `c` = count stored in the registry (0 = absent), `a` = `absCount`
                            of the history since `RESET`
Actions: `cleanup <rtype> x<hexname>`, `report <ExceptionClass>`, `leak <rtype> <n>`, joined by ` ; `; none: `-`.
Anything else → `bad-op`. -/
open JoblibModel JoblibModel.Tracker JoblibModel.IOUtil

def nibble? (c : Char) : Option Nat :=
  if '0' ≤ c ∧ c ≤ '9' then some (c.toNat - '0'.toNat)
  else if 'a' ≤ c ∧ c ≤ 'f' then some (c.toNat - 'a'.toNat + 10)
  else none

def hexBytes? : List Char → Option (List Nat)
  | [] => some []
  | a :: b :: r => do
    let x ← nibble? a
    let y ← nibble? b
    let rest ← hexBytes? r
    pure ((16 * x + y) :: rest)
  | _ => none

/-- `x<hex>` → bytes. -/
def unhex? (s : String) : Option (List Nat) :=
  match s.toList with
  | 'x' :: r => hexBytes? r
  | _ => none

def hexDigit (n : Nat) : Char := if n < 10 then Char.ofNat (48 + n) else Char.ofNat (87 + n)

def hex (l : List Nat) : String :=
  String.ofList ('x' :: l.flatMap (fun b => [hexDigit (b / 16 % 16), hexDigit (b % 16)]))

def rtypeName : RType → String
  | .folder => "folder"
  | .file => "file"
  | .semlock => "semlock"

def rtype? (s : String) : Option RType :=
  if s = "folder" then some .folder else if s = "file" then some .file
  else if s = "semlock" then some .semlock else none

def errName : ErrKind → String
  | .unicodeDecodeError => "UnicodeDecodeError"
  | .valueError => "ValueError"
  | .runtimeError => "RuntimeError"
  | .keyError => "KeyError"

def showAction : Action → String
  | .cleanup rt n => s!"cleanup {rtypeName rt} {hex n}"
  | .report e => s!"report {errName e}"
  | .leakWarning rt n => s!"leak {rtypeName rt} {n}"

def showActions (l : List Action) : String :=
  if l.isEmpty then "-" else " ; ".intercalate (l.map showAction)

structure St where
  registry : Registry
  history : List Line   -- most recent first

def handle (st : St) (line : String) : St × String :=
  match tokens line with
  | ["RESET"] => (⟨Registry.empty, []⟩, "reset")
  | ["T"] => (st, "rtypes " ++ joinSp (rtypes.map rtypeName))
  | ["EOF"] => (st, showActions (finish st.registry))
  | ["L", h] =>
    match unhex? h with
    | some (b :: bs) =>
      let r := step st.registry (b :: bs)
      (⟨r.1, (b :: bs) :: st.history⟩, showActions r.2)
    | _ => (st, "bad-op")
  | ["Q", t, h] =>
    match rtype? t, unhex? h with
    | some rt, some name =>
      let c := match lookup (st.registry.get rt) name with
        | none => (0 : Int)
        | some c => c
      (st, s!"count {c} {absCount rt name st.history.reverse}")
    | _, _ => (st, "bad-op")
  | _ => (st, "bad-op")

def main : IO Unit := stateLoop (⟨Registry.empty, []⟩ : St) handle
