import JoblibModel.Tracker
import JoblibModel.TrackerClient
import JoblibModel.TrackerSignals
import JoblibModel.IOUtil
/-! Driver for C20 (model of `resource_tracker.main`, and of the client side composed with it). One request per line:

* `RESET`                 → `reset`            fresh registry (`registry = {rtype: {} …}`)
* `T`                     → `rtypes folder file semlock`   (`_CLEANUP_FUNCS.keys()` as the model has it)
* `L x<hex>`              → actions of `step` on that raw line (bytes in hex, '\n' included when it was there)
* `EOF`                   → actions of `finish` on the current registry (registry kept)
* `Q <rtype> x<hexname>`  → `count <c> <a>`: `c` = count stored in the registry (0 = absent), `a` = `absCount`
                            of the history since `RESET`
Actions: `cleanup <rtype> x<hexname>`, `report <ExceptionClass>`, `leak <rtype> <n>`, joined by ` ; `; none: `-`.

Client side (`JoblibModel.TrackerClient`: `stepOp`, `eof` over one `State` = main process + tracker + disk + workers):
* `C RESET <fix 0|1> <max_nbytes|-> <nPar> <pool k>*` → `ok`   fresh world
* `C configure k` | `C poolConfigure k` | `C spawn k` | `C terminate k` | `C poolTerminate k`
  (`pool…` = the same operation on a `Parallel` object of the multiprocessing backend; a name that does not fit → `bad-op`)
* `C reduce k <array id> <memmap_backed 0|1> <hasobject 0|1> <nbytes>`
* `C load c i` | `C drop i` | `C childExit c` | `C childKill c`
* `C abort k <ensure_ready 0|1>` | `C execTerminate <kill 0|1>` | `C exitParent` | `C killParent`
  → `<status> | <requests written during the operation, in order, joined by ';'> | <folders on disk, ','> | <files on disk, ','>
     | <files deleted during the operation while in use (the model's monitor `bad`), ','> | <dup 0|1>`
* `C EOF` → the same shape with status `eof`: the last process is gone, `Tracker.finish` is applied to the disk
An operation that the probe cannot issue for this configuration (`Op.wellFormed`) → `bad-op`.

Signals (`JoblibModel.TrackerSignals.life`: the tracker as the launcher spawns it, `main`'s head as the code has it):
* `S <pi 0|1> <pt 0|1> <a0> <a1> <a2> <a3>` → `alive` | `dead`   `pi`/`pt`: SIGINT / SIGTERM pending when `main` starts;
  `a0..a3`: the signals arriving before the first statement, between the statements, and afterwards (command loop, EOF
  clean-up) — words over `i` (SIGINT) and `t` (SIGTERM), `-` = none
Anything else → `bad-op`. -/
open JoblibModel JoblibModel.Tracker JoblibModel.IOUtil

def nibble? (c : Char) : Option Nat :=
  if '0' ≤ c ∧ c ≤ '9' then some (c.toNat - '0'.toNat)
  else if 'a' ≤ c ∧ c ≤ 'f' then some (c.toNat - 'a'.toNat + 10)
  else none

def hexBytes? : List Char → Option (List Nat)
  | [] => some []
  | a :: b :: r => do
    let x ← nibble? a
    let y ← nibble? b
    let rest ← hexBytes? r
    pure ((16 * x + y) :: rest)
  | _ => none

/-- `x<hex>` → bytes. -/
def unhex? (s : String) : Option (List Nat) :=
  match s.toList with
  | 'x' :: r => hexBytes? r
  | _ => none

def hexDigit (n : Nat) : Char := if n < 10 then Char.ofNat (48 + n) else Char.ofNat (87 + n)

def hex (l : List Nat) : String :=
  String.ofList ('x' :: l.flatMap (fun b => [hexDigit (b / 16 % 16), hexDigit (b % 16)]))

def rtypeName : RType → String
  | .folder => "folder"
  | .file => "file"
  | .semlock => "semlock"

def rtype? (s : String) : Option RType :=
  if s = "folder" then some .folder else if s = "file" then some .file
  else if s = "semlock" then some .semlock else none

def errName : ErrKind → String
  | .unicodeDecodeError => "UnicodeDecodeError"
  | .valueError => "ValueError"
  | .runtimeError => "RuntimeError"
  | .keyError => "KeyError"

def showAction : Action → String
  | .cleanup rt n => s!"cleanup {rtypeName rt} {hex n}"
  | .report e => s!"report {errName e}"
  | .leakWarning rt n => s!"leak {rtypeName rt} {n}"

def showActions (l : List Action) : String :=
  if l.isEmpty then "-" else " ; ".intercalate (l.map showAction)

def bool? (s : String) : Option Bool := if s = "1" then some true else if s = "0" then some false else none

def nats? : List String → Option (List Nat)
  | [] => some []
  | a :: r => do
    let x ← a.toNat?
    let rest ← nats? r
    pure (x :: rest)

def optNat? (s : String) : Option (Option Nat) := if s = "-" then some none else (s.toNat?).map some

def nameStr (n : Name) : String := String.ofList (n.map Char.ofNat)

/-- A line of the pipe without its final newline. -/
def lineStr (l : Line) : String := nameStr (l.dropLast)

/-- `poolConfigure` / `poolTerminate` are the probe's names of `configure` / `terminate` on a `Parallel` object of the
multiprocessing backend: the name must fit the kind. -/
def kindOk (cfg : TrackerClient.Cfg) (pool : Bool) (k : Nat) : Option Nat :=
  if TrackerClient.isPoolK cfg k = pool then some k else none

def parseOp (cfg : TrackerClient.Cfg) : List String → Option TrackerClient.Op
  | ["configure", k] => (k.toNat?.bind (kindOk cfg false)).map .configure
  | ["poolConfigure", k] => (k.toNat?.bind (kindOk cfg true)).map .configure
  | ["spawn", k] => k.toNat?.map .spawn
  | ["terminate", k] => (k.toNat?.bind (kindOk cfg false)).map .terminate
  | ["poolTerminate", k] => (k.toNat?.bind (kindOk cfg true)).map .terminate
  | ["reduce", k, a, b, o, n] => do
    let k ← k.toNat?
    let a ← a.toNat?
    let b ← bool? b
    let o ← bool? o
    let n ← n.toNat?
    pure (.reduce k ⟨a, b, o, n⟩)
  | ["load", c, i] => do
    let c ← c.toNat?
    let i ← i.toNat?
    pure (.load c i)
  | ["drop", i] => i.toNat?.map .drop
  | ["childExit", c] => c.toNat?.map .childExit
  | ["childKill", c] => c.toNat?.map .childKill
  | ["abort", k, e] => do
    let k ← k.toNat?
    let e ← bool? e
    pure (.abort k e)
  | ["execTerminate", b] => (bool? b).map .execTerminate
  | ["exitParent"] => some .exitParent
  | ["killParent"] => some .killParent
  | _ => none

def statusStr : TrackerClient.Status → String
  | .ok => "ok"
  | .skip => "skip"
  | .loadfail => "loadfail"

/-- The reply to a client operation: what changed between `old` and `new`. -/
def showClient (status : String) (old new : TrackerClient.State) : String :=
  let lines := (new.sent.take (new.sent.length - old.sent.length)).reverse
  let bad := new.bad.drop old.bad.length
  status ++ " | " ++ ";".intercalate (lines.map lineStr)
    ++ " | " ++ ",".intercalate (new.disk.dirs.map (fun d => nameStr d.name))
    ++ " | " ++ ",".intercalate (new.disk.files.map (fun f => nameStr f.name))
    ++ " | " ++ ",".intercalate (bad.map (fun f => nameStr f.name))
    ++ " | " ++ (if new.dup then "1" else "0")

structure St where
  registry : Registry
  history : List Line   -- most recent first
  cfg : TrackerClient.Cfg
  cs : TrackerClient.State

def handleClient (st : St) : List String → St × String
  | "RESET" :: fix :: mx :: npar :: pools =>
    match bool? fix, optNat? mx, npar.toNat?, nats? pools with
    | some fix, some mx, some npar, some pools =>
      ({ st with cfg := ⟨fix, mx, npar, pools⟩, cs := TrackerClient.State.init }, "ok")
    | _, _, _, _ => (st, "bad-op")
  | ["EOF"] =>
    let new := TrackerClient.eof st.cs
    ({ st with cs := new }, showClient "eof" st.cs new)
  | ts =>
    match parseOp st.cfg ts with
    | none => (st, "bad-op")
    | some op =>
      if op.wellFormed st.cfg then
        let r := TrackerClient.stepOp st.cfg st.cs op
        ({ st with cs := r.1 }, showClient (statusStr r.2) st.cs r.1)
      else (st, "bad-op")

def sigs? (w : String) : Option (List TrackerSignals.Sig) :=
  if w = "-" then some []
  else w.toList.mapM (fun c => if c = 'i' then some .int else if c = 't' then some .term else none)

def handleSignals : List String → String
  | [pi, pt, a0, a1, a2, a3] =>
    match bool? pi, bool? pt, sigs? a0, sigs? a1, sigs? a2, sigs? a3 with
    | some pi, some pt, some a0, some a1, some a2, some a3 =>
      if (TrackerSignals.life pi pt a0 a1 a2 a3).alive then "alive" else "dead"
    | _, _, _, _, _, _ => "bad-op"
  | _ => "bad-op"

def handle (st : St) (line : String) : St × String :=
  match tokens line with
  | "C" :: ts => handleClient st ts
  | "S" :: ts => (st, handleSignals ts)
  | ["RESET"] => ({ st with registry := Registry.empty, history := [] }, "reset")
  | ["T"] => (st, "rtypes " ++ joinSp (rtypes.map rtypeName))
  | ["EOF"] => (st, showActions (finish st.registry))
  | ["L", h] =>
    match unhex? h with
    | some (b :: bs) =>
      let r := step st.registry (b :: bs)
      ({ st with registry := r.1, history := (b :: bs) :: st.history }, showActions r.2)
    | _ => (st, "bad-op")
  | ["Q", t, h] =>
    match rtype? t, unhex? h with
    | some rt, some name =>
      let c := match lookup (st.registry.get rt) name with
        | none => (0 : Int)
        | some c => c
      (st, s!"count {c} {absCount rt name st.history.reverse}")
    | _, _ => (st, "bad-op")
  | _ => (st, "bad-op")

def main : IO Unit :=
  stateLoop (⟨Registry.empty, [], ⟨false, none, 0, []⟩, TrackerClient.State.init⟩ : St) handle
