import JoblibModel.NJobs
import JoblibModel.IOUtil
/-! Driver for C15 (stateless). `-` = None / absent. Backend class letters: S T M L.

  cpu <os> <wincap> <affinity> <quota> <period> <loky> <only_physical 0|1> <physical>
        os/wincap/affinity/physical: `-` or a natural number; quota/period: both `-` or both integers;
        loky: `-` (unset) | `bad` (not an integer literal) | an integer
        → ok <n> | raises ValueError
  eff <C> <level|N> <mpNone> <daemon> <main> <lokyDepth> <cpus> <lo> <hi>
        → eff <r(lo)> … <r(hi)> <r(None)>          r = a number | E (ValueError)
  init <same arguments>
        → init <C:n_jobs:pool> …                    pool `-` = none;  or E
  nested <C> <level> <activeC> <activeLevel>  → <C> <level>
  chain <C> <level> <depth>                   → <C:level> for depth 0 … depth
  wenv <C> <mpNone> <daemon> <main> <lokyDepth> → <daemon> <main> <lokyDepth> of the workers
  resize <max|-> <alive> <started 0|1> <same_args 0|1> <n>
        the reusable executor before a call (`-` = none exists) and the n_jobs asked for
        → <live workers during/after the call> <max_workers>
  tpool <stmt> …   one ThreadingBackend instance (fresh) serving a history of statements
        stmt: P<n>:<tasks>                     Parallel(n_jobs=n)(<tasks>)          (n = resolved n_jobs ≥ 1)
              M<n>:<item>,<item>…              with Parallel(n_jobs=n) as p: items
              item: o<tasks> = p(<tasks>) | f<m>x<tasks> = another Parallel(n_jobs=m)(<tasks>) on the same instance
        → one `<n>/<size seen by each task, comma separated, or .>/<_pool after the call or ->` per CALL, then `end:<_pool>`
Anything else → bad-op. -/
open JoblibModel JoblibModel.NJobs JoblibModel.IOUtil
open JoblibModel.Config (BackendClass)

def clsOf (s : String) : Option BackendClass :=
  match s.toList with
  | ['S'] => some .sequential | ['T'] => some .threading
  | ['M'] => some .multiprocessing | ['L'] => some .loky
  | _ => none

def clsLetter : BackendClass → String
  | .sequential => "S" | .threading => "T" | .multiprocessing => "M" | .loky => "L"

def optNat? (s : String) : Option (Option Nat) :=
  if s = "-" then some none else s.toNat?.map some

def bool? (s : String) : Option Bool :=
  if s = "1" then some true else if s = "0" then some false else none

def level? (s : String) : Option (Option Nat) :=
  if s = "N" then some none else s.toNat?.map some

def showB (b : Bool) : String := if b then "1" else "0"

def intRange (lo hi : Int) : List Int :=
  (List.range ((hi - lo + 1).toNat)).map (fun (i : Nat) => lo + Int.ofNat i)

def parseEff : List String → Option (BackendClass × Option Nat × EffEnv × Int × Int)
  | [c, l, mn, dm, mt, ld, cpus, lo, hi] => do
    let c ← clsOf c; let l ← level? l; let mn ← bool? mn; let dm ← bool? dm; let mt ← bool? mt
    let ld ← ld.toNat?; let cpus ← cpus.toInt?; let lo ← lo.toInt?; let hi ← hi.toInt?
    pure (c, l, ⟨mn, dm, mt, ld, cpus⟩, lo, hi)
  | _ => none


def natAfter (pre : Char) (s : String) : Option Nat :=
  match s.toList with
  | c :: rest => if c = pre ∧ !rest.isEmpty then (String.ofList rest).toNat? else none
  | [] => none

def item? (s : String) : Option TItem :=
  match s.toList with
  | 'o' :: rest => if rest.isEmpty then none else (String.ofList rest).toNat?.map TItem.own
  | 'f' :: rest =>
    match (String.ofList rest).splitOn "x" with
    | [m, t] => do let m ← m.toNat?; let t ← t.toNat?; pure (TItem.foreign m t)
    | _ => none
  | _ => none

def stmt? (s : String) : Option TCall :=
  match s.splitOn ":" with
  | [h, body] =>
    match h.toList with
    | 'P' :: _ => do let n ← natAfter 'P' h; let t ← body.toNat?; pure (TCall.plain n t)
    | 'M' :: _ => do
      let n ← natAfter 'M' h
      let items ← (body.splitOn ",").mapM item?
      pure (TCall.managed n items)
    | _ => none
  | _ => none

def showPool : Option Nat → String
  | none => "-" | some k => toString k

def showObs (o : TObs) : String :=
  toString o.n ++ "/" ++ (if o.sizes.isEmpty then "." else ",".intercalate (o.sizes.map toString)) ++
    "/" ++ showPool o.after

def handle (line : String) : String :=
  match tokens line with
  | ["cpu", os, wc, aff, q, p, lk, op, ph] =>
    let cg : Option (Option (Int × Int)) :=
      if q = "-" && p = "-" then some none
      else match q.toInt?, p.toInt? with
        | some q, some p => some (some (q, p))
        | _, _ => none
    let lk : Option (Option (Option Int)) :=
      if lk = "-" then some none else if lk = "bad" then some (some none)
      else lk.toInt?.map (fun v => some (some v))
    match optNat? os, optNat? wc, optNat? aff, cg, lk, bool? op, optNat? ph with
    | some os, some wc, some aff, some cg, some lk, some op, some ph =>
      match cpuCount ⟨os, wc, aff, cg, lk, ph⟩ op with
      | .ok n => "ok " ++ toString n
      | .error _ => "raises ValueError"
    | _, _, _, _, _, _, _ => "bad-op"
  | "eff" :: rest =>
    match parseEff rest with
    | some (c, l, env, lo, hi) =>
      let one (n : Option Int) : String := match effectiveNJobs c l env n with
        | .ok k => toString k
        | .error _ => "E"
      joinSp ("eff" :: ((intRange lo hi).map (fun n => one (some n)) ++ [one none]))
    | none => "bad-op"
  | "init" :: rest =>
    match parseEff rest with
    | some (c, l, env, lo, hi) =>
      let one (n : Option Int) : String := match initializeBackend c l env n with
        | .ok r => clsLetter r.cls ++ ":" ++ toString r.n_jobs ++ ":" ++
            (match r.pool with | none => "-" | some k => toString k)
        | .error _ => "E"
      joinSp ("init" :: ((intRange lo hi).map (fun n => one (some n)) ++ [one none]))
    | none => "bad-op"
  | ["nested", c, l, ac, al] =>
    match clsOf c, l.toNat?, clsOf ac, al.toNat? with
    | some c, some l, some ac, some al =>
      let r := getNestedBackend c l (ac, al)
      clsLetter r.1 ++ " " ++ toString r.2
    | _, _, _, _ => "bad-op"
  | ["chain", c, l, d] =>
    match clsOf c, l.toNat?, d.toNat? with
    | some c, some l, some d =>
      joinSp ((List.range (d + 1)).map (fun i =>
        let b := defaultAt (c, l) i
        clsLetter b.1 ++ ":" ++ toString b.2))
    | _, _, _ => "bad-op"
  | ["wenv", c, mn, dm, mt, ld] =>
    match clsOf c, bool? mn, bool? dm, bool? mt, ld.toNat? with
    | some c, some mn, some dm, some mt, some ld =>
      let w := workerEnv c ⟨mn, dm, mt, ld, 1⟩
      joinSp [showB w.daemon, showB w.mainThread, toString w.lokyDepth]
    | _, _, _, _, _ => "bad-op"
  | ["resize", mx, al, stt, same, n] =>
    match optNat? mx, al.toNat?, bool? stt, bool? same, n.toNat? with
    | some mx, some al, some stt, some same, some n =>
      let cur : Option Pool := mx.map (fun m => ⟨m, al, stt⟩)
      let p := submitEnsure (getReusableExecutor cur same n)
      toString p.alive ++ " " ++ toString p.maxWorkers
    | _, _, _, _, _ => "bad-op"
  | "tpool" :: stmts =>
    if stmts.isEmpty then "bad-op"
    else match stmts.mapM stmt? with
      | some cs =>
        let r := tRun .asIs TBackend.fresh cs
        joinSp (r.2.map showObs ++ ["end:" ++ showPool r.1.pool])
      | none => "bad-op"
  | _ => "bad-op"

def main : IO Unit := lineLoop handle
