import JoblibModel.ParallelLockU
import JoblibModel.IOUtil
/-! Driver for M1LU: one scenario + schedule of harness/m1_lock.py per line (`LScenario.tokens_u`) → the model's step
log `tid:events>point | …` over the SAME `step` / `enabledActs` the theorems of `JoblibProofs/M1LU.lean` are about.
Request: `nj auto nbs bs… pdMode pd ra abortDrops recheck timeout(-1 = None) nctl ctl… 1 n nf fails… iterfail ns sched…`. -/
namespace Driver.M1LU
open JoblibModel.ParallelLockU JoblibModel.IOUtil
open JoblibModel.ParallelLock (Act idsStr CbPc.point)

def takeNats : Nat → List Int → Option (List Nat × List Int)
  | 0, l => some ([], l)
  | n + 1, x :: l => if x < 0 then none else (takeNats n l).map (fun (a, r) => (x.toNat :: a, r))
  | _ + 1, [] => none

def parse (toks : List Int) : Option (Cfg × List Nat) :=
  match toks with
  | nj :: auto :: nbs :: l => do
    if nj < 2 || nbs < 1 then none
    let (bs, l) ← takeNats nbs.toNat l
    match l with
    | pdMode :: pd :: ra :: ad :: rc :: tmo :: nctl :: l =>
      if pdMode < 0 || pdMode > 2 || pd < 0 || ra < 0 || ra > 2 || tmo < -1 || nctl < 0 then none
      let (ctl, l) ← takeNats nctl.toNat l
      match l with
      | nc :: n :: nf :: l =>
        if nc != 1 || n < 0 || nf < 0 then none
        let (fails, l) ← takeNats nf.toNat l
        match l with
        | itf :: ns :: l =>
          if ns < 0 || itf < -1 then none
          let (sched, l) ← takeNats ns.toNat l
          if l ≠ [] then none
          pure ({ nj := nj.toNat, bsAuto := auto != 0, bs := bs, pdMode := pdMode.toNat, pd := pd.toNat, ra := ra.toNat,
                  abortDrops := ad != 0, n := n.toNat, fails := fails,
                  iterfail := if itf < 0 then none else some itf.toNat, recheck := rc != 0,
                  timeout := if tmo < 0 then none else some tmo.toNat, ctl := ctl }, sched)
        | _ => none
      | _ => none
    | _ => none
  | _ => none

def allDone (s : St) : Bool :=
  s.pc == .done && s.trk.all (fun t => match t.pc with
    | .idle | .parked | .dropped | .done _ => true
    | _ => false)

def stepStr (s s' : St) : Act → String
  | .thread 0 =>
    "0:" ++ ";".intercalate (((s'.log.take (s'.log.length - s.log.length)).reverse).map evStr) ++ ">" ++ s'.pc.point
  | .thread (i + 1) =>
    toString (i + 1) ++ ":" ++ ";".intercalate (((s'.log.take (s'.log.length - s.log.length)).reverse).map evStr)
      ++ ">" ++ (getTrk s' i).pc.point
  | .complete k =>
    match (parkedIds s)[k]? with
    | some i => "E:complete " ++ idsStr (getTrk s i).items ++ " | " ++ toString (i + 1) ++ ":>acq"
    | none => "E:?"

def loop (c : Cfg) : Nat → St → List Nat → List String → List String
  | 0, _, _, acc => ("hang" :: acc).reverse
  | fuel + 1, s, sched, acc =>
    let (a, sched) := match sched with
      | ch :: r => (pick s ch, r)
      | [] => (pickLast s, [])
    match a with
    | none => (if allDone s then acc else "deadlock" :: acc).reverse
    | some a =>
      let s' := step c s a
      loop c fuel s' sched (stepStr s s' a :: acc)

def handle (line : String) : String :=
  match (tokens line).mapM (·.toInt?) with
  | none => "bad-op"
  | some toks =>
    match parse toks with
    | none => "bad-op"
    | some (c, sched) => " | ".intercalate (loop c 6000 init sched ["0:>acq"])

end Driver.M1LU

def main : IO Unit := JoblibModel.IOUtil.lineLoop Driver.M1LU.handle
