import JoblibModel.DumpLoad
import JoblibModel.IOUtil
/-! Driver for C03 (model `JoblibModel.DumpLoad`). One request per line:

* `resolve <arg> <target>` → `ok raw` | `ok codec <name> <level|default>` | `err <ValueError|TypeError>`
  (`dumpHeader`: the ladder of `dump` + `_write_fileobject`)
  `<arg>`    : `val:<lvl>` | `str:<s>` | `tuple2:<m>:<lvl>` | `tupleN:<n>` (n ≠ 2)
  `<lvl>`    : `none` | `true` | `false` | `int=<n>` | `float=<n>` (integral float) | `other`
  `<m>`      : `s=<s>` | `hashable` | `unhashable`
  `<target>` : `path:<s>` | `pathlib:<s>` | `file` | `bytesio` | `other`
  `<s>`      : code points in decimal joined by `.`, `-` for the empty string
* `detect <hex>` → `compat` | `method <name>` | `not-compressed`   (`_detect_compressor` on these first bytes)
* `sniff <peekable 0|1> <bytes peek() returns> <pos> <hex of the whole file>` → `<detected> pos=<cursor afterwards>`   (`_detect_compressor` on an open seekable file at `pos`)
* `sniffns <bytes peek() returns> <pos> <hex>` → the same for a peekable object that is not seekable
* `start <hex>`  → `yes` | `no`                                     (`isPickleStart`)
* `tables`       → the generated tables the driver was built from
* `hist <n> <op>|<op>|…` → one reply per operation, joined by `|`   (`hreplies histEnv`: a HISTORY of operations in one
  process with `n` module globals, all bound at version 0 at the start)
  `<op>` : `d,<slot s>,<arg>,<target>,<protocol>,<g>,<id>`  dump an instance of global `g` carrying `id` → `ok` | `err:<Class>`
           `l,<slot s>`                                       load → `loaded:g=<g>:v=<version of the class>:id=<id>` | `loaded:none` | `nofile`
           `r,<g>,<ver>`                                      global `g` is re-bound (version `ver`) → `rebound`
Anything else → `bad-op`. -/
open JoblibModel JoblibModel.DumpLoad JoblibModel.Generated JoblibModel.IOUtil

def parseStr (t : String) : Option String :=
  if t = "-" then some ""
  else
    let parts := t.splitOn "."
    parts.foldl (fun acc p => do
      let a ← acc
      let n ← p.toNat?
      if n < 0x110000 then pure (a.push (Char.ofNat n)) else none) (some "")

def parseLvl (t : String) : Option PyLevel :=
  if t = "none" then some .none
  else if t = "true" then some (.bool true)
  else if t = "false" then some (.bool false)
  else if t = "other" then some .other
  else match t.splitOn "=" with
    | ["int", n] => n.toInt?.map .int
    | ["float", n] => n.toInt?.map .float
    | _ => none

def parseMethod (t : String) : Option PyMethod :=
  if t = "hashable" then some .hashable
  else if t = "unhashable" then some .unhashable
  else match t.splitOn "=" with
    | ["s", s] => (parseStr s).map .str
    | _ => none

def parseArg? (t : String) : Option CompressArg :=
  match t.splitOn ":" with
  | ["val", l] => (parseLvl l).map .val
  | ["str", s] => (parseStr s).map .str
  | ["tuple2", m, l] => do
    let m ← parseMethod m
    let l ← parseLvl l
    pure (.tuple2 m l)
  | ["tupleN", n] => do
    let n ← n.toNat?
    if n = 2 then none else pure (.tupleN n)
  | _ => none

def parseTarget (t : String) : Option Target :=
  match t.splitOn ":" with
  | ["path", s] => (parseStr s).map .path
  | ["pathlib", s] => (parseStr s).map .path     -- `filename = str(filename)`
  | ["file"] => some .fileobj                      -- `hasattr(filename, "write")`
  | ["bytesio"] => some .fileobj
  | ["other"] => some .other
  | _ => none

def hexVal (c : Char) : Option Nat :=
  if '0' ≤ c ∧ c ≤ '9' then some (c.toNat - '0'.toNat)
  else if 'a' ≤ c ∧ c ≤ 'f' then some (c.toNat - 'a'.toNat + 10)
  else none

def parseHexList : List Char → Option Bytes
  | [] => some []
  | a :: b :: r => do
    let x ← hexVal a
    let y ← hexVal b
    let rest ← parseHexList r
    pure ((16 * x + y) :: rest)
  | _ => none

def parseHex (t : String) : Option Bytes :=
  if t = "-" then some [] else parseHexList t.toList

def showWriter : Except Err Writer → String
  | .error e => "err " ++ e.name
  | .ok .raw => "ok raw"
  | .ok (.codec n none) => "ok codec " ++ n ++ " default"
  | .ok (.codec n (some l)) => "ok codec " ++ n ++ " " ++ toString l

def showDetected : Detected → String
  | .compat => "compat"
  | .method n => "method " ++ n
  | .notCompressed => "not-compressed"

def hex2 (n : Nat) : String :=
  let d := fun (k : Nat) => "0123456789abcdef".toList.getD k '?'
  String.ofList [d (n / 16 % 16), d (n % 16)]

def showTables : String :=
  let cs := compressors.map (fun c =>
    c.name ++ ":" ++ String.join (c.pfx.map hex2) ++ ":" ++ c.ext ++ ":" ++ (if c.available then "1" else "0")
      ++ ":" ++ c.floatLevelErr)
  "tables " ++ ",".intercalate cs ++ ";zf=" ++ String.join (zfilePrefix.map hex2)
    ++ ";max=" ++ toString maxPrefixLen ++ ";lz4=" ++ (if lz4Installed then "1" else "0")
    ++ ";zlevel=" ++ toString zlibDefaultLevel ++ ";hp=" ++ toString pickleHighestProtocol

def setBinding (g v : Nat) (b : List (Nat × Nat)) : List (Nat × Nat) := (g, v) :: b

def parseHOp (nglobals : Nat) (t : String) : Option (HOp (List (Nat × Nat)) HObj) :=
  match t.splitOn "," with
  | ["d", slot, a, tg, p, g, id] => do
    let slot ← parseStr slot
    let a ← parseArg? a
    let tg ← parseTarget tg
    let p ← p.toNat?
    let g ← g.toNat?
    let id ← id.toNat?
    if g < nglobals ∧ p ≤ pickleHighestProtocol then pure (.dump slot (g, 0, id) a tg p) else none
  | ["l", slot] => (parseStr slot).map .load
  | ["r", g, v] => do
    let g ← g.toNat?
    let v ← v.toNat?
    if g < nglobals then pure (.rebind (setBinding g v)) else none
  | _ => none

def showHReply : HReply HObj → String
  | .dumped => "ok"
  | .dumpErr e => "err:" ++ e.name
  | .loaded none => "loaded:none"
  | .loaded (some (g, v, id)) => "loaded:g=" ++ toString g ++ ":v=" ++ toString v ++ ":id=" ++ toString id
  | .noFile => "nofile"
  | .rebound => "rebound"

def handle (line : String) : String :=
  match tokens line with
  | ["hist", n, ops] =>
    match n.toNat? with
    | none => "bad-op"
    | some n =>
      match (ops.splitOn "|").mapM (parseHOp n) with
      | none => "bad-op"
      | some ops =>
        let s0 : Proc (List (Nat × Nat)) := ⟨[], (List.range n).map (fun g => (g, 0))⟩
        "|".intercalate ((hreplies histEnv s0 ops).map showHReply)
  | ["resolve", a, t] =>
    match parseArg? a, parseTarget t with
    | some a, some t => showWriter (dumpHeader a t)
    | _, _ => "bad-op"
  | ["detect", h] =>
    match parseHex h with
    | some b => showDetected (detect b)
    | none => "bad-op"
  | ["sniff", pk, pkd, pos, h] =>
    match (if pk = "1" then some true else if pk = "0" then some false else none), pkd.toNat?, pos.toNat?, parseHex h with
    | some pk, some pkd, some pos, some b =>
      let r := sniff pk pkd b pos
      showDetected r.1 ++ " pos=" ++ toString r.2
    | _, _, _, _ => "bad-op"
  | ["sniffns", pkd, pos, h] =>   -- a peekable object that is NOT seekable (a buffered reader over a pipe)
    match pkd.toNat?, pos.toNat?, parseHex h with
    | some pkd, some pos, some b =>
      let r := sniff true pkd b pos false
      showDetected r.1 ++ " pos=" ++ toString r.2
    | _, _, _ => "bad-op"
  | ["start", h] =>
    match parseHex h with
    | some b => if isPickleStart b then "yes" else "no"
    | none => "bad-op"
  | ["tables"] => showTables
  | _ => "bad-op"

def main : IO Unit := lineLoop handle
