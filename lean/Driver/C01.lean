/-! Stub driver: the model driver for this property is not built yet. -/
def main : IO Unit := IO.println "unimplemented"
