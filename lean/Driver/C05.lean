import JoblibModel.Store
import JoblibModel.StoreIO
import JoblibModel.IOUtil
/-! Driver for C05 (model `JoblibModel.Store`).

Requests
* `hist ORDER FIRSTLINE SRC0 SRC1 | PROC | PROC | …` — a sequential history of processes on an initially empty scratch
  directory. `ORDER` = kernel directory-entry order (comma-separated names, `-` = none), `SRCk` = source text of version
  k (hex, `-` = empty). `PROC` = `call:a=3,ver=0,cb=none|long|now|since<g>,shelve=0|1,me=0,legacy=0|1[,compress=1][,gen=G][,kill=K[,torn=N]]`
  (`gen` = the generation the process lives in, 0 when absent; `since<g>` = valid iff the entry's stamp is of generation ≥ g)
  | `reduce:me=0,victims=4.5[,kill=K]` | `clear:me=0[,kill=K]`; `kill=K` = SIGKILL after K system calls (the K-th torn
  to N bytes when it is a write).
  Reply: `LOG => OUTCOME | LOG => OUTCOME | …`, `LOG` = `op;op;…` in the syntax of harness/fstrace.py,
  `OUTCOME` = `ok v<ver>.<arg>[@<gen>]` (`@<gen>` for a value of a generation other than 0) | `ok done` | `raise <ExceptionClass>` | `killed`.
* `code SRC CONTENT` — `_check_previous_func_code`'s reading of `CONTENT` against live source `SRC` (first line 1):
  `same` | `differs` | `valueError`.
Anything else: `bad-op`. -/
open JoblibModel JoblibModel.Store JoblibModel.StoreIO JoblibModel.IOUtil

def runHistory (env : Env) : List String → FS → Option (List String)
  | [], _ => some []
  | p :: rest, fs =>
    match parseProc env p.trimAscii.toString with
    | some (ps, l) =>
      let r := runOne env.order ps l fs
      (runHistory env rest r.2).map (r.1 :: ·)
    | none => none

def parseEnv (hd : String) (kw : String) : Option Env :=
  match tokens hd with
  | [k, order, fl, s0, s1] =>
    if k ≠ kw then none else do
      let o ← parseNames order
      let f ← fl.toNat?
      let b0 ← parseHex s0
      let b1 ← parseHex s1
      pure ⟨o, f, [b0, b1]⟩
  | _ => none

def handle (line : String) : String :=
  match tokens line with
  | ["code", src, content] =>
    match parseHex src, parseHex content with
    | some s, some c =>
      match checkCodeImpl s c with
      | .same => "same" | .differs => "differs" | .valueError => "valueError"
    | _, _ => "bad-op"
  | "hist" :: _ =>
    match line.trimAscii.toString.splitOn " | " with
    | hd :: procs =>
      match parseEnv hd "hist" with
      | some env =>
        match runHistory env procs FS.empty with
        | some outs => " | ".intercalate outs
        | none => "bad-op"
      | none => "bad-op"
    | [] => "bad-op"
  | _ => "bad-op"

def main : IO Unit := lineLoop handle
