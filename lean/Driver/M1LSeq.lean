import JoblibModel.ParallelLockSeq
import JoblibModel.IOUtil
/-! Driver for M1L-Seq: one MULTI-CALL scenario + schedule of harness/m1_lock.py per line (`LScenario.tokens_seq`) → the
model's step log `tid:events>point | …` over the SAME `stepS` / `enabledActsS` the theorems of `JoblibProofs/M1LSeq.lean`
are about.  Same line format as `Driver/M1L.lean`; thread numbers and task ids are printed as the harness numbers them
(callback thread = 1 + number of batches submitted before, task ids consecutive over the calls). -/
namespace Driver.M1LSeq
open JoblibModel.ParallelLock JoblibModel.ParallelLockSeq JoblibModel.IOUtil

def takeNats : Nat → List Int → Option (List Nat × List Int)
  | 0, l => some ([], l)
  | n + 1, x :: l => if x < 0 then none else (takeNats n l).map (fun (a, r) => (x.toNat :: a, r))
  | _ + 1, [] => none

def takeCalls : Nat → List Int → Option (List CallCfg × List Int)
  | 0, l => some ([], l)
  | k + 1, n :: nf :: l => do
    if n < 0 || nf < 0 then none
    let (fails, l) ← takeNats nf.toNat l
    match l with
    | itf :: l =>
      if itf < -1 then none
      let (cs, l) ← takeCalls k l
      pure ({ n := n.toNat, fails := fails, iterfail := if itf < 0 then none else some itf.toNat } :: cs, l)
    | [] => none
  | _ + 1, _ => none

def parse (toks : List Int) : Option (SCfg × List Nat) :=
  match toks with
  | nj :: auto :: nbs :: l => do
    if nj < 2 || nbs < 1 then none
    let (bs, l) ← takeNats nbs.toNat l
    match l with
    | pdMode :: pd :: ra :: ad :: rc :: gd :: sq :: nc :: l =>
      if pdMode < 0 || pdMode > 2 || pd < 0 || ra < 0 || ra > 1 || nc < 1 || ad < 0 || ad > 1 || rc < 0 || rc > 1 ||
          gd < 0 || gd > 1 || sq < 0 || sq > 1 || auto < 0 || auto > 1 then none
      let (calls, l) ← takeCalls nc.toNat l
      match l with
      | ns :: l =>
        if ns < 0 then none
        let (sched, l) ← takeNats ns.toNat l
        if l ≠ [] then none
        pure ({ nj := nj.toNat, bsAuto := auto != 0, bs := bs, pdMode := pdMode.toNat, pd := pd.toNat, ra := ra.toNat,
                abortDrops := ad != 0, recheck := rc != 0, dispatchNewGuard := gd != 0, seqCallbacks := sq != 0,
                calls := calls }, sched)
      | _ => none
    | _ => none
  | _ => none

def allDone (sc : SCfg) (ss : SSt) : Bool :=
  ss.cur.pc == .done && ss.k + 1 == sc.calls.length && !anyCbAlive ss

/-- Items of the tracker with absolute index `g`. -/
def itemsAt (ss : SSt) (g : Nat) : List Nat :=
  if g < ss.old.length then (getOld ss g).t.items else (getTrk ss.cur (g - ss.old.length)).items

/-- The harness numbers a callback thread `1 + n_submitted` at the `backend.submit` of its batch: trackers registered for
an error of the input iterable (no items) are never submitted and have no number. -/
def tidOf (ss : SSt) (g : Nat) : Nat :=
  1 + ((List.range g).filter (fun h => !(itemsAt ss h).isEmpty)).length

def evsStr (evs : List Ev) : String := ";".intercalate (evs.map evStr)

/-- The events emitted between two logs (newest first), oldest first. -/
def newEvs (before after : List Ev) : List Ev := (after.take (after.length - before.length)).reverse

def stepStr (sc : SCfg) (ss : SSt) : Act → SSt × String
  | .thread 0 =>
    let mid := stepCallerCore sc ss
    let ss' := switchCall sc mid
    (ss', "0:" ++ evsStr ((newEvs ss.cur.log mid.cur.log).map (shiftEv (sc.base ss.k))) ++ ">" ++ ss'.cur.pc.point)
  | .thread (g + 1) =>
    let ss' := stepS sc ss (.thread (g + 1))
    if g < ss.old.length then
      (ss', toString (tidOf ss g) ++ ":" ++ evsStr (newEvs ss.hist ss'.hist) ++ ">" ++ (getOld ss' g).t.pc.point)
    else
      (ss', toString (tidOf ss g) ++ ":" ++ evsStr ((newEvs ss.cur.log ss'.cur.log).map (shiftEv (sc.base ss.k)))
        ++ ">" ++ (getTrk ss'.cur (g - ss.old.length)).pc.point)
  | .complete k =>
    let ss' := stepS sc ss (.complete k)
    match (parkedIdsS ss)[k]? with
    | some g =>
      let b := if g < ss.old.length then sc.base (getOld ss g).call else sc.base ss.k
      (ss', "E:complete " ++ idsStr ((itemsAt ss g).map (· + b)) ++ " | " ++ toString (tidOf ss g) ++ ":>acq")
    | none => (ss', "E:?")

def loop (sc : SCfg) : Nat → SSt → List Nat → List String → List String
  | 0, _, _, acc => ("hang" :: acc).reverse
  | fuel + 1, ss, sched, acc =>
    let (a, sched) := match sched with
      | ch :: r => (pickS sc ss ch, r)
      | [] => (pickLastS sc ss, [])
    match a with
    | none => (if allDone sc ss then acc else "deadlock" :: acc).reverse
    | some a =>
      let (ss', str) := stepStr sc ss a
      loop sc fuel ss' sched (str :: acc)

def handle (line : String) : String :=
  match (tokens line).mapM (·.toInt?) with
  | none => "bad-op"
  | some toks =>
    match parse toks with
    | none => "bad-op"
    | some (sc, sched) => " | ".intercalate (loop sc 6000 sinit sched ["0:>acq"])

end Driver.M1LSeq

def main : IO Unit := JoblibModel.IOUtil.lineLoop Driver.M1LSeq.handle
