import JoblibModel.ZlibFile
import JoblibModel.IOUtil
/-! Driver for C13 (stateful: one file object at a time).

Requests
* `open HEX L1 L2 …`     open for reading: payload (`-` = empty) and the lengths of the decompressed chunks
                         `_fill_buffer` sees (must sum to the payload length) → `ok`
                         HEX may also be a compact description `@LEN*PAT,LEN*PAT,…` (segments; each is the
                         non-empty hex pattern PAT repeated cyclically up to LEN bytes), so that payloads of
                         megabytes (long runs, periodic data) cost a short request line
* `read N` | `readinto N` | `readline` | `tell` | `seek OFF WHENCE` | `close`
* `wopen HEX`            open for writing; HEX = the bytes the following writes slice from → `ok`
* `write OFF LEN`        `write(payload[OFF:OFF+LEN])`
* `wclose`               `close()` in write mode → `closed handed=<#compress calls> <bytes> flushes=<n>`
  (the model compressor is the identity, so `<bytes>` describes the concatenation handed to it)
Replies: `b LEN xHEX|aADLER32` (bytes; hex up to 16 bytes, else adler32), `i LEN …` (readinto), `n POS`,
`none`, `exc <ClassName>`, `hang`, `bad-op`. -/
open JoblibModel JoblibModel.ZlibFile JoblibModel.IOUtil

def hexVal (c : Char) : Option Nat :=
  if '0' ≤ c ∧ c ≤ '9' then some (c.toNat - '0'.toNat)
  else if 'a' ≤ c ∧ c ≤ 'f' then some (c.toNat - 'a'.toNat + 10)
  else none

def parseHexList : List Char → Option Bytes
  | [] => some []
  | a :: b :: r => do
    let x ← hexVal a
    let y ← hexVal b
    let rest ← parseHexList r
    pure (UInt8.ofNat (16 * x + y) :: rest)
  | _ => none

/-- `pat` repeated cyclically up to `n` bytes. -/
def cycleBytes (pat : Array UInt8) (n : Nat) : Bytes := Id.run do
  let mut a : Array UInt8 := Array.mkEmpty n
  for i in [0:n] do
    a := a.push pat[i % pat.size]!
  return a.toList

/-- One segment `LEN*PAT` of a compact payload description. -/
def parseSeg (s : String) : Option Bytes :=
  match s.splitOn "*" with
  | [n, pat] => do
    let n ← n.toNat?
    let p ← parseHexList pat.toList
    if p.isEmpty then none else pure (cycleBytes p.toArray n)
  | _ => none

def parseHex (s : String) : Option Bytes :=
  if s = "-" then some []
  else if s.startsWith "@" then
    ((s.drop 1).toString.splitOn ",").foldlM (fun (acc : Bytes) seg => (parseSeg seg).map (acc ++ ·)) []
  else parseHexList s.toList

def hexDigit (n : Nat) : Char :=
  if n < 10 then Char.ofNat ('0'.toNat + n) else Char.ofNat ('a'.toNat + n - 10)

def toHex (b : Bytes) : String :=
  String.ofList (b.flatMap (fun x => [hexDigit (x.toNat / 16), hexDigit (x.toNat % 16)]))

def adler32 (b : Bytes) : Nat :=
  let r := b.foldl (fun (p : Nat × Nat) x =>
    let a := (p.1 + x.toNat) % 65521
    (a, (p.2 + a) % 65521)) (1, 0)
  r.2 * 65536 + r.1

def showBytes (b : Bytes) : String :=
  toString b.length ++ " " ++ (if b.length ≤ 16 then "x" ++ toHex b else "a" ++ toString (adler32 b))

def excName : ExcKind → String
  | .valueError => "ValueError"
  | .unsupportedOperation => "UnsupportedOperation"
  | .zlibError => "error"
  | .eofError => "EOFError"

def showOut : Out → String
  | .bytes b => "b " ++ showBytes b
  | .into b => "i " ++ showBytes b
  | .num n => "n " ++ toString n
  | .none => "none"
  | .exc e => "exc " ++ excName e
  | .hang => "hang"

/-- Chunk lengths → chunks of the payload; `none` unless they add up exactly. -/
def splitChunks : Bytes → List Nat → Option (List Bytes)
  | [], [] => some []
  | _ :: _, [] => none
  | p, n :: ns =>
    if n ≤ p.length then (splitChunks (p.drop n) ns).map (fun r => p.take n :: r) else none

def identityCompressor : Compressor Unit := ⟨fun _ d => ((), d), fun _ => []⟩

inductive St
  | idle
  | rd (fuel : Nat) (f : ZFile ChunkSrc)
  | wr (payload : Bytes) (w : WFile Unit)

def parseOp : List String → Option Op
  | ["read", n] => n.toInt?.map .read
  | ["readinto", n] => n.toNat?.map .readinto
  | ["readline"] => some .readline
  | ["tell"] => some .tell
  | ["seek", o, w] => do
    let o ← o.toInt?
    let w ← w.toInt?
    pure (.seek o w)
  | ["close"] => some .close
  | _ => none

def handle (st : St) (line : String) : St × String :=
  match tokens line with
  | "open" :: hex :: lens =>
    match parseHex hex, lens.mapM String.toNat? with
    | some p, some ns =>
      match splitChunks p ns with
      | some cs => (.rd (cs.length + p.length + 2) (openChunks cs), "ok")
      | none => (st, "bad-op")
    | _, _ => (st, "bad-op")
  | ["wopen", hex] =>
    match parseHex hex with
    | some p => (.wr p (openWrite ()), "ok")
    | none => (st, "bad-op")
  | toks =>
    match st with
    | .idle => (st, "bad-op")
    | .rd fuel f =>
      match toks with
      | ["write", o, n] =>
        match o.toNat?, n.toNat? with
        | some _, some _ =>
          -- `_check_can_write` on a file that is not open for writing
          match (⟨f.mode, f.pos, (), [], [], 0⟩ : WFile Unit).write identityCompressor [] with
          | .error (.exc e) => (st, "exc " ++ excName e)
          | _ => (st, "bad-op")
        | _, _ => (st, "bad-op")
      | _ =>
        match parseOp toks with
        | some op =>
          let (f', o) := applyOp chunkSource fuel f op
          (.rd fuel f', showOut o)
        | none => (st, "bad-op")
    | .wr p w =>
      match toks with
      | ["write", o, n] =>
        match o.toNat?, n.toNat? with
        | some o, some n =>
          if o + n ≤ p.length then
            match w.write identityCompressor ((p.drop o).take n) with
            | .ok (w', k) => (.wr p w', "n " ++ toString k)
            | .error (.exc e) => (st, "exc " ++ excName e)
            | .error .outOfFuel => (st, "hang")
          else (st, "bad-op")
        | _, _ => (st, "bad-op")
      | ["wclose"] =>
        let w' := w.close identityCompressor
        (.wr p w', "closed handed=" ++ toString w'.handed.length ++ " " ++ showBytes w'.fp
          ++ " flushes=" ++ toString w'.flushes)
      | ["tell"] =>
        match w.mode with
        | .closed => (st, "exc ValueError")
        | _ => (st, "n " ++ toString w.pos)
      | _ =>
        match parseOp toks with
        | some .close => (.wr p (w.close identityCompressor), "none")
        | some op =>
          -- a read-side method on a file in mode "wb" (or closed): only the mode check matters
          let (_, o) := applyOp chunkSource 1 { openChunks [] with mode := w.mode } op
          (st, showOut o)
        | none => (st, "bad-op")

def main : IO Unit := stateLoop St.idle handle
