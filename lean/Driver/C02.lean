import JoblibModel.MemoryDriver
/-! Driver for C02: the history interpreter over `JoblibModel.MemoryCache.step` (protocol in
`JoblibModel/MemoryDriver.lean`, shared with C06). -/
def main : IO Unit := JoblibModel.MemoryDriver.main
