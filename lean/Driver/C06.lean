import JoblibModel.MemoryDriver
/-! Driver for C06: the history interpreter over `JoblibModel.MemoryCache.step` (protocol in
`JoblibModel/MemoryDriver.lean`, shared with C02). -/
def main : IO Unit := JoblibModel.MemoryDriver.main
