import JoblibModel.ZlibFile
import JoblibModel.ZFileLegacy
import JoblibModel.IOUtil
/-! Driver for C14 (stateless).

Request  `load V FIRST ORIG K R L E T…`
* `V`     `new` (repaired `_fill_buffer`, what the theorems of C14 are about) or `old` (the pinned tree, F7)
* `FIRST` hex of the first `min K 8` bytes of the damaged file (`-` if empty)
* `ORIG`  compressor the undamaged file was written with: `zlib gzip bz2 lzma xz none`
* `K`     length of the damaged file, `R` length of the undamaged file, `L` length of the pickle stream
* `E`     offset just after the end-of-stream marker inside the damaged file, `-` if it has none
* `T…`    `fed:out` pairs — CPython's zlib on this file: cumulative output after `fed` compressed bytes; one
          entry for every multiple of 8192 below `K` and one for `K` (needed for zlib/gzip only)
Reply    `<load class> <cached-call outcome> <stream>`:
          class ∈ `raises`, `returns-original`, `hang`, `raises|returns-original` (CPython's own codecs),
          `unmodelled`; outcome ∈ `recomputed`, `served`, `hang`, `recomputed|served`, `unmodelled`;
          stream = what `BinaryZlibFile(file).read()` delivers: `stream <len>`, `stream hang`,
          `stream exc <Class>` or `stream -` when the file is not zlib/gzip.

Request  `zfile HDR K D21 D22 L`   — the LEGACY Z-file reader `numpy_pickle_compat.read_zfile` / `load_compatibility`
* `HDR`   hex of the first `min K 22` bytes of the damaged file (`-` if empty): prefix, length field, next byte
* `K`     length of the damaged file, `L` length of the pickle the intact file holds
* `D21`, `D22`  what CPython's `zlib.decompress` does on `file[21:]` and on `file[22:]`: `err` or `ok:<n bytes>`
Reply    `<load class> <cached-call outcome> <read_zfile>`: read_zfile = `zdata <len>` or `exc <Class>`.

Request  `hexint HEX` — `int(bytes.fromhex(HEX), 16)`; reply `int <n>` or `ValueError`.

Malformed requests → `bad-op`. -/
open JoblibModel JoblibModel.ZlibFile JoblibModel.IOUtil JoblibModel.ZFileLegacy

def hexVal (c : Char) : Option Nat :=
  if '0' ≤ c ∧ c ≤ '9' then some (c.toNat - '0'.toNat)
  else if 'a' ≤ c ∧ c ≤ 'f' then some (c.toNat - 'a'.toNat + 10)
  else none

def parseHexList : List Char → Option Bytes
  | [] => some []
  | a :: b :: r => do
    let x ← hexVal a
    let y ← hexVal b
    let rest ← parseHexList r
    pure (UInt8.ofNat (16 * x + y) :: rest)
  | _ => none

def parseHex (s : String) : Option Bytes :=
  if s = "-" then some [] else parseHexList s.toList

def parsePair (s : String) : Option (Nat × Nat) :=
  match s.splitOn ":" with
  | [a, b] => do
    let a ← a.toNat?
    let b ← b.toNat?
    pure (a, b)
  | _ => none

def optNat? (s : String) : Option (Option Nat) :=
  if s = "-" then some none else s.toNat?.map some

/-- Every length `_fill_buffer` can have fed before end of stream is in the table. -/
def tableCovers (k : Nat) (table : List (Nat × Nat)) : Bool :=
  (List.range (k / BUFFER_SIZE + 2)).all fun i =>
    table.any (fun t => t.1 == min (i * BUFFER_SIZE) k)

def className : LoadClass → String
  | .raises => "raises"
  | .returnsOriginal => "returns-original"
  | .hang => "hang"

def callName : CallOutcome → String
  | .recomputed => "recomputed"
  | .servedFromCache => "served"
  | .hang => "hang"

def excName : ExcKind → String
  | .valueError => "ValueError"
  | .unsupportedOperation => "UnsupportedOperation"
  | .zlibError => "error"
  | .eofError => "EOFError"

def zexcName : ZExc → String
  | .valueError => "ValueError"
  | .zlibError => "error"
  | .assertionError => "AssertionError"

/-- `err` ↦ `zlib.error`, `ok:<n>` ↦ n bytes. -/
def parseDec (s : String) : Option (Option Nat) :=
  if s = "err" then some none
  else match s.splitOn ":" with
    | ["ok", n] => n.toNat?.map some
    | _ => none

def handleZfile (hdr k d21 d22 l : String) : String :=
  match parseHex hdr, k.toNat?, parseDec d21, parseDec d22, l.toNat? with
  | some hdr, some k, some d21, some d22, some l =>
    if hdr.length ≠ min k 22 then "bad-op"
    else
      let file : Bytes := hdr ++ List.replicate (k - hdr.length) 0
      let data (n : Nat) : Bytes := (List.range n).map (fun i => UInt8.ofNat (i % 251))
      let D : Bytes → Option Bytes := fun payload =>
        if payload.length = k - HEADER_LENGTH then d21.map data
        else if payload.length = k - (HEADER_LENGTH + 1) then d22.map data
        else none
      let c := loadCompat D l file
      let z := match readZfile D file with
        | .ok d => "zdata " ++ toString d.length
        | .error e => "exc " ++ zexcName e
      className c ++ " " ++ callName (cachedCall c) ++ " " ++ z
  | _, _, _, _, _ => "bad-op"

def handle (line : String) : String :=
  match tokens line with
  | ["zfile", hdr, k, d21, d22, l] => handleZfile hdr k d21 d22 l
  | ["hexint", h] =>
    match parseHex h with
    | some b => match pyIntHex b with
      | some n => "int " ++ toString n
      | none => "ValueError"
    | none => "bad-op"
  | "load" :: v :: first :: orig :: k :: r :: l :: e :: ts =>
    match parseHex first, k.toNat?, r.toNat?, l.toNat?, optNat? e, ts.mapM parsePair with
    | some first, some k, some r, some l, some e, some table =>
      let knownOrig := ["zlib", "gzip", "bz2", "lzma", "xz", "none"].contains orig
      if !knownOrig || first.length ≠ min k 8 || (v ≠ "new" && v ≠ "old") then "bad-op"
      else
        let file : Bytes := first ++ List.replicate (k - first.length) 0
        let payload : Bytes := (List.range l).map (fun i => UInt8.ofNat (i % 251))
        let S := if v = "new" then rawSource (scriptCodec payload e table)
                 else rawSourceOld (scriptCodec payload e table)
        let fuel := k / BUFFER_SIZE + 3
        let isZ := match detectCompressor file with
          | .zlib | .gzip => true
          | _ => false
        if isZ && !tableCovers k table then "bad-op"
        else if !isZ && detectCompressor file == .notCompressed && orig ≠ "none" && k > 8 then
          "unmodelled unmodelled stream -"
        else
          let stream :=
            if isZ then
              match readAll S fuel (openRaw file) with
              | .ok (_, b) => "stream " ++ toString b.length
              | .error .outOfFuel => "stream hang"
              | .error (.exc x) => "stream exc " ++ excName x
            else "stream -"
          match predictLoad S (openRaw file) fuel l (orig = "none") r file with
          | .exact c => className c ++ " " ++ callName (cachedCall c) ++ " " ++ stream
          | .cpythonCodec => "raises|returns-original recomputed|served " ++ stream
          | .unmodelled => "unmodelled unmodelled " ++ stream
    | _, _, _, _, _, _ => "bad-op"
  | _ => "bad-op"

def main : IO Unit := lineLoop handle
